package drivers

import (
	"fmt"

	"github.com/scottyw/tetromino/gameboy/interrupts"
	"github.com/scottyw/tetromino/gameboy/oam"
	"github.com/scottyw/tetromino/gameboy/ppu"

	"verif/harness/machine"
	"verif/harness/trace"
)

func init() { Registry["ppu"] = ppuMain }

// A PPU timing scenario: STAT enable bits, LYC, and a schedule: a list of
// (cycle, on/off) LCDC writes; every machine cycle is logged.
type ppuScript struct {
	id     string
	stat   int
	lyc    int
	cycles int
	debug  bool     // ppu.New's debug flag (Config.DebugLCD: 256 x 256 frame buffer, other colours) - no bearing on timing
	sw     [][3]int // (cycle index before which LCDC is written, bit 7 value 0/1, low seven bits or -1 for a derived value)
}

func ppuRun(s *ppuScript) *trace.Scenario {
	i := interrupts.New()
	o := oam.New()
	p := ppu.New(i, o, s.debug)
	// start from LCD off (the constructor switches it on)
	p.WriteLCDC(0x11)
	// STAT bits 0-2 are read-only and bit 7 does not exist: what is written there must not show anywhere
	p.WriteSTAT(uint8(s.stat | []int{0x00, 0x07, 0x83, 0x81, 0x02, 0x84}[(s.stat/8+s.lyc+s.cycles)%6]))
	p.WriteLYC(uint8(s.lyc))
	i.WriteIF(0)
	sc := &trace.Scenario{ID: s.id, Reset: []int{s.stat, s.lyc, s.cycles, trace.B2I(s.debug)}}
	k := 0
	perr := machine.Try(func() { ppuLoop(s, sc, p, i, o, &k) })
	if perr != "" {
		sc.Ev = append(sc.Ev, []any{9, perr})
	}
	return sc
}

func ppuLoop(s *ppuScript, sc *trace.Scenario, p *ppu.PPU, i *interrupts.Interrupts, o *oam.OAM, kp *int) {
	k := *kp
	for t := 0; t < s.cycles; t++ {
		for k < len(s.sw) && s.sw[k][0] == t {
			// the other LCDC bits must not matter: they are derived from the schedule position
			low := []int{0x11, 0x00, 0x7f, 0x01, 0x10, 0x55, 0x2a}[(s.sw[k][0]+k)%7]
			if len(s.sw[k]) > 2 && s.sw[k][2] >= 0 {
				low = s.sw[k][2]
			}
			if s.sw[k][1] == 3 {
				// a write to another LCD register (encoded addr<<8 | value): no effect on line and mode timing
				a, v := s.sw[k][2]>>8, uint8(s.sw[k][2])
				switch a {
				case 0x42:
					p.WriteSCY(v)
				case 0x43:
					p.WriteSCX(v)
				case 0x44:
					p.WriteLY(v)
				case 0x47:
					p.WriteBGP(v)
				case 0x48:
					p.WriteOBP0(v)
				case 0x49:
					p.WriteOBP1(v)
				case 0x4a:
					p.WriteWY(v)
				case 0x4b:
					p.WriteWX(v)
				case 0x46:
					// an OAM DMA (the transfer is stepped below, after the PPU, as the frame loop does): the PPU goes on
					// scanning and drawing on schedule, whatever it finds in OAM meanwhile
					o.WriteDMA(v)
				}
				sc.Ev = append(sc.Ev, []any{3, int(p.ReadLY()), int(p.ReadSTAT() & 3), a, int(v)})
			} else if s.sw[k][1] == 1 {
				p.WriteLCDC(uint8(0x80 | low&0x7f))
				sc.Ev = append(sc.Ev, []any{1, int(p.ReadLY()), int(p.ReadSTAT() & 3), 0x80 | low&0x7f})
			} else {
				p.WriteLCDC(uint8(low & 0x7f))
				sc.Ev = append(sc.Ev, []any{2, int(p.ReadLY()), int(p.ReadSTAT() & 3), low & 0x7f})
			}
			k++
		}
		p.EndMachineCycle()
		o.TickDMA(func(a uint16) uint8 { return uint8(a) })
		f := int(i.ReadIF() & 3)
		i.WriteIF(0)
		sc.Ev = append(sc.Ev, []any{0, int(p.ReadLY()), int(p.ReadSTAT() & 3), f})
	}
}

func ppuMain(c *Ctx) {
	w := trace.NewWriter(c.Out, "ppu", 120000)
	if c.Mode == "rerun" {
		scs, err := trace.ReadAll(c.In)
		if err != nil {
			die("%v", err)
		}
		for _, s := range scs {
			r := trace.Ints(s.Reset)
			ps := &ppuScript{id: s.ID, stat: r[0], lyc: r[1], cycles: r[2], debug: len(r) > 3 && r[3] == 1}
			t := 0
			for _, e := range s.Ev {
				switch trace.Int(e[0]) {
				case 0:
					t++
				case 1:
					ps.sw = append(ps.sw, [3]int{t, 1, trace.Int(e[3]) & 0x7f})
				case 2:
					ps.sw = append(ps.sw, [3]int{t, 0, trace.Int(e[3]) & 0x7f})
				case 3:
					ps.sw = append(ps.sw, [3]int{t, 3, trace.Int(e[3])<<8 | trace.Int(e[4])})
				}
			}
			w.Put(ppuRun(ps))
		}
		w.Close()
		return
	}
	n := 0
	emit := func(fam string, s *ppuScript) {
		s.id = fmt.Sprintf("ppu-%s-%d", fam, n)
		n++
		w.Put(ppuRun(s))
	}
	thorough := c.Thorough()
	if c.Want("frames") {
		// undisturbed frames: no source and each single STAT source x LYC values
		rng := c.Rand(1301)
		lycs := []int{0, 1, 77, 143, 144, 153, 154, 255}
		if thorough {
			lycs = nil
			for v := 0; v <= 153; v++ {
				lycs = append(lycs, v)
			}
			lycs = append(lycs, 154, 200, 255)
		}
		frames := 1
		if thorough {
			frames = 3
		}
		for _, st := range []int{0, 8, 16, 32, 64} {
			ls := lycs
			if st != 64 {
				ls = []int{lycs[rng.Intn(len(lycs))], 0}
			}
			for _, ly := range ls {
				emit("frames", &ppuScript{stat: st, lyc: ly, cycles: frames*17556 + 2500, sw: [][3]int{{3 + rng.Intn(40), 1, -1}}})
			}
		}
		// the LCD left on for a long time: a counter inside the PPU that wraps (2^16 cycles is 3.7 frames, 2^20 is 60) must not show
		long := []int{5}
		if thorough {
			long = []int{16, 61}
		}
		for _, fr := range long {
			emit("frames", &ppuScript{stat: []int{0, 64}[fr%2], lyc: 113, cycles: fr*17556 + 300, sw: [][3]int{{3 + rng.Intn(40), 1, -1}}})
		}
		// the debug configuration of the PPU (bigger frame buffer): same schedule
		for _, st := range []int{0, 16, 8} {
			emit("frames", &ppuScript{stat: st, lyc: 0, cycles: frames*17556 + 2500, debug: true, sw: [][3]int{{3 + rng.Intn(40), 1, -1}, {17556 + 200, 0, -1}, {17556 + 320, 1, -1}}})
		}
		// several sources at once (STAT not judged, VBlank and timing are)
		emit("frames", &ppuScript{stat: 0x78, lyc: 10, cycles: 17556 + 500, sw: [][3]int{{5, 1, 0}}})
	}
	if c.Want("switch") {
		// LCD switched off and on again at every cycle of one line of each class
		rng := c.Rand(1302)
		step := 9
		if thorough {
			step = 1
		}
		for _, line := range []int{0, 1, 70, 143, 144, 153} {
			for off := 0; off < 114; off += step {
				onAt := 2 + rng.Intn(30)
				offAt := onAt + line*114 + off
				if line > 0 {
					offAt -= 2 // the first line is two cycles shorter
				}
				gap := 1 + rng.Intn(200)
				st := []int{0, 8, 16, 32, 64}[rng.Intn(5)]
				emit("switch", &ppuScript{stat: st, lyc: []int{0, line, 144}[rng.Intn(3)], cycles: offAt + gap + 700,
					sw: [][3]int{{onAt, 1, -1}, {offAt, 0, -1}, {offAt + gap, 1, -1}}})
			}
		}
	}
	if c.Want("regs") {
		// the LCD left on while the program writes the other LCD registers (LY, scroll, palettes, window position) and
		// rewrites LCDC with bit 7 still set: neither moves the line / mode schedule. Redundant switch-on writes fall on
		// seven offsets of every line, the last cycles of the line among them.
		rng := c.Rand(1304)
		count := 3
		if thorough {
			count = 40
		}
		regs := []int{0x44, 0x43, 0x42, 0x44, 0x43, 0x47, 0x48, 0x49, 0x4a, 0x4b, 0x46, 0x46}
		for i := 0; i < count; i++ {
			on := 3 + rng.Intn(40)
			sw := [][3]int{{on, 1, -1}}
			total := 2*17556 + 400
			t := on + 1
			for t < total {
				sw = append(sw, [3]int{t, 3, regs[rng.Intn(len(regs))]<<8 | rng.Intn(256)})
				t += 1 + rng.Intn(90)
			}
			emit("regs", &ppuScript{stat: []int{0, 8, 16, 32, 64}[rng.Intn(5)], lyc: rng.Intn(160), cycles: total, sw: sw})
			var sw2 [][3]int
			sw2 = append(sw2, [3]int{on, 1, -1})
			for line := 0; line < 2*154; line++ {
				for _, off := range []int{(line * 7) % 109, 109, 110, 111, 112, 113} {
					if (line+off+i)%3 != 0 && off < 109 {
						continue
					}
					sw2 = append(sw2, [3]int{on + line*114 + off, 1, -1})
				}
			}
			// events must be in time order
			for a := 1; a < len(sw2); a++ {
				for b := a; b > 0 && sw2[b][0] < sw2[b-1][0]; b-- {
					sw2[b], sw2[b-1] = sw2[b-1], sw2[b]
				}
			}
			emit("regs", &ppuScript{stat: []int{16, 8, 64, 32, 0}[i%5], lyc: []int{144, 0, 143}[i%3], cycles: total, sw: sw2})
		}
	}
	if c.Want("switch") {
		// switched off in the cycles around the end of the first and second frame (the frame counter wraps there)
		rng := c.Rand(1305)
		for fr := 1; fr <= 2; fr++ {
			for dlt := -4; dlt <= 4; dlt++ {
				onAt := 2 + rng.Intn(30)
				offAt := onAt + fr*17556 - 2 + dlt
				emit("switch", &ppuScript{stat: []int{0, 8, 16, 32, 64}[rng.Intn(5)], lyc: []int{0, 153, 144}[rng.Intn(3)], cycles: offAt + 400,
					sw: [][3]int{{onAt, 1, -1}, {offAt, 0, -1}, {offAt + 1 + rng.Intn(200), 1, -1}}})
			}
		}
	}
	if c.Want("rand") {
		// random on/off schedules, including on-while-on and off-while-off
		rng := c.Rand(1303)
		count := 8
		if thorough {
			count = 120
		}
		for i := 0; i < count; i++ {
			var sw [][3]int
			t := rng.Intn(50)
			total := 24000
			for t < total {
				sw = append(sw, [3]int{t, rng.Intn(3) / 2, -1})
				if rng.Intn(3) == 0 {
					sw[len(sw)-1][1] = 1
				}
				switch rng.Intn(4) {
				case 0:
					t += 1 + rng.Intn(5)
				case 1:
					t += rng.Intn(300)
				default:
					t += rng.Intn(9000)
				}
			}
			emit("rand", &ppuScript{stat: []int{0, 8, 16, 32, 64}[rng.Intn(5)], lyc: rng.Intn(160), cycles: total, sw: sw})
		}
	}
	w.Close()
}
