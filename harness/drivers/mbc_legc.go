package drivers

import (
	"bufio"
	"encoding/json"
	"fmt"
	"os"

	"verif/harness/machine"
)

// mbcLegC replays TLC-emitted transition tests (leg C of C08 / C09) on the real cartridge controllers.
// One test: {"kind","rom","ram","st":[ramg,bank1,bank2,mode,romb,ramb],"a","v","low","high","tgt":["off"|"ram"|"free", cell]}
// The source state is reached by the canonical control writes, the write (a, v) is performed, then the two ROM
// windows are identified by the page signature and A000-BFFF is probed at offset 5.
type mbcTest struct {
	Kind string `json:"kind"`
	Rom  int    `json:"rom"`
	Ram  int    `json:"ram"`
	St   []int  `json:"st"`
	A    int    `json:"a"`
	V    int    `json:"v"`
	Low  int    `json:"low"`
	High int    `json:"high"`
	Tgt  []any  `json:"tgt"`
}

func mbcCartFor(kind string, rom, ram int) cartSpec {
	typ := map[string]int{"none": 0x00, "mbc1": 0x03, "mbc2": 0x06, "mbc3": 0x13, "mbc5": 0x1b}[kind]
	rs := 0
	for (2 << rs) < rom {
		rs++
	}
	as := map[int]int{1: 2, 4: 3, 16: 4, 8: 5}[ram]
	return cartSpec{kind, typ, rs, as, false}
}

func mbcLegC(c *Ctx) {
	f, err := os.Open(c.In)
	if err != nil {
		die("%v", err)
	}
	defer f.Close()
	var tests []mbcTest
	sc := bufio.NewScanner(f)
	sc.Buffer(make([]byte, 1<<20), 1<<26)
	for sc.Scan() {
		var t mbcTest
		if err := json.Unmarshal(sc.Bytes(), &t); err != nil {
			die("legc: %v", err)
		}
		tests = append(tests, t)
	}
	out, err := os.Create(c.Out)
	if err != nil {
		die("%v", err)
	}
	defer out.Close()
	bw := bufio.NewWriter(out)
	defer bw.Flush()
	const chunk = 2000
	nch := (len(tests) + chunk - 1) / chunk
	results := make([][][]byte, nch)
	mode := os.Getenv("MODE") // C08: ROM windows, C09: RAM target, anything else: both
	parallel(nch, func(ci int) {
		var m *machine.Machine
		var cur cartSpec
		marker := 1
		for i := ci * chunk; i < len(tests) && i < (ci+1)*chunk; i++ {
			t := tests[i]
			var script [][]any
			got := map[string]any{}
			perr := machine.Try(func() {
				cs := mbcCartFor(t.Kind, t.Rom, t.Ram)
				if m == nil || cs != cur {
					m = machine.New(cartImage(cs), machine.Options{NoCPU: true})
					cur = cs
				}
				w := func(a, v int) {
					m.M.Write(uint16(a), uint8(v))
					script = append(script, []any{"w", a, v})
				}
				ramg, bank1, bank2, md, romb, ramb := t.St[0], t.St[1], t.St[2], t.St[3], t.St[4], t.St[5]
				en := 0x00
				if ramg == 1 {
					en = 0x0a
				}
				switch t.Kind {
				case "mbc1":
					w(0x0000, en)
					w(0x2000, bank1)
					w(0x4000, bank2)
					w(0x6000, md)
				case "mbc2":
					w(0x0000, en)
					w(0x0100, romb)
				case "mbc3":
					w(0x0000, en)
					w(0x2000, romb)
					w(0x4000, ramb)
				case "mbc5":
					w(0x0000, en)
					w(0x2000, romb&0xff)
					w(0x3000, romb>>8)
					w(0x4000, ramb)
				}
				w(t.A, t.V)
				page := func(base int) int {
					return int(m.M.Read(uint16(base))) | (int(m.M.Read(uint16(base+1)))&^0x40)<<8
				}
				got["low"], got["high"] = page(0x0000), page(0x4000)
				kind, _ := t.Tgt[0].(string)
				switch kind {
				case "ram":
					cell := int(t.Tgt[1].(float64))
					before := append([]byte(nil), m.M.DumpRAM()...)
					marker = marker%250 + 1
					mk := marker
					if cell < len(before) && int(before[cell]) == mk {
						mk = mk%250 + 1
					}
					m.M.Write(0xa005, uint8(mk))
					after := m.M.DumpRAM()
					rd := int(m.M.Read(0xa005))
					changed := []int{}
					for k := range after {
						if k < len(before) && before[k] != after[k] {
							changed = append(changed, k)
						}
					}
					ok := len(changed) == 1 && changed[0] == cell
					if t.Kind == "mbc2" {
						ok = ok && rd&0x0f == mk&0x0f
					} else {
						ok = ok && rd == mk
					}
					got["ram_ok"], got["changed"], got["read"], got["marker"] = ok, changed, rd, mk
				case "off":
					before := append([]byte(nil), m.M.DumpRAM()...)
					m.M.Write(0xa005, 0x5a)
					after := m.M.DumpRAM()
					same := len(before) == len(after)
					for k := 0; same && k < len(after); k++ {
						same = before[k] == after[k]
					}
					rd := int(m.M.Read(0xa005))
					got["ram_ok"], got["read"] = same && rd == 0xff, rd
				default:
					got["ram_ok"] = true
				}
			})
			bad := perr != ""
			if !bad && mode != "C09" {
				bad = got["low"] != t.Low || got["high"] != t.High
			}
			if !bad && mode != "C08" {
				bad = got["ram_ok"] != true
			}
			if bad {
				if perr != "" {
					got["panic"] = perr
					m = nil
				}
				b, _ := json.Marshal(map[string]any{"test": t, "got": got, "script": script})
				results[ci] = append(results[ci], b)
			}
		}
	})
	bad := 0
	for _, rs := range results {
		for _, b := range rs {
			bad++
			bw.Write(b)
			bw.WriteByte('\n')
		}
	}
	src := map[string]bool{}
	for _, t := range tests {
		src[fmt.Sprint(t.Kind, t.St)] = true
	}
	b, _ := json.Marshal(map[string]any{"tests": len(tests), "mismatches": bad, "source_states": len(src)})
	fmt.Println("LEGC " + string(b))
}
