package drivers

import (
	"fmt"
	"math/rand"

	"github.com/scottyw/tetromino/gameboy/memory"

	"verif/harness/machine"
	"verif/harness/trace"
)

func init() { Registry["oambug"] = oamBugMain }

// oamProgram: code that moves BC, DE, HL and SP through FE00-FEFF with 16-bit INC/DEC, PUSH/POP,
// (HL+)/(HL-) loads and stores, plain reads and writes.
func oamProgram(rng *rand.Rand, n int) []int {
	var code []int
	emit := func(b ...int) { code = append(code, b...) }
	ptr := func() int { return 0xfe00 + rng.Intn(0x100) }
	for len(code) < n {
		switch rng.Intn(16) {
		case 0:
			p := ptr()
			emit(0x21, p&0xff, p>>8)
		case 1:
			p := ptr()
			emit(0x01, p&0xff, p>>8)
		case 2:
			p := ptr()
			emit(0x11, p&0xff, p>>8)
		case 3:
			p := 0xfe02 + rng.Intn(0xfc)
			emit(0x31, p&0xff, p>>8)
		case 4, 5:
			emit([]int{0x03, 0x13, 0x23, 0x33, 0x0b, 0x1b, 0x2b, 0x3b}[rng.Intn(8)])
		case 6, 7:
			emit([]int{0xc5, 0xd5, 0xe5, 0xf5, 0xf1, 0xf1, 0xf5, 0xc5}[rng.Intn(8)]) // POP only into AF: popped data must not become a pointer
		case 8, 9:
			emit([]int{0x22, 0x2a, 0x32, 0x3a}[rng.Intn(4)])
		case 10:
			emit([]int{0x77, 0x7e, 0x02, 0x0a, 0x12, 0x1a, 0x34, 0x35, 0x46, 0x70}[rng.Intn(10)])
		case 11:
			emit(0x3e, rng.Intn(256))
		case 12:
			emit(0x08, rng.Intn(256), 0xfe) // LD (FExx),SP
		case 14:
			// writes to the LCD registers (LY and STAT's low bits are read-only, the others plain storage): none of them
			// arms or disarms anything; LCDC itself now and then, which switches the LCD under the program's feet
			r := []int{0x44, 0x41, 0x45, 0x42, 0x43, 0x44, 0x47, 0x48, 0x49, 0x4a, 0x4b, 0x44}[rng.Intn(12)]
			if rng.Intn(12) == 0 {
				r = 0x40
			}
			emit(0x3e, rng.Intn(256), 0xe0, r)
		case 13:
			if rng.Intn(3) == 0 {
				emit(0x3e, 0xc0+rng.Intn(0x20), 0xe0, 0x46) // start an OAM DMA from work RAM
			} else {
				emit(0xf9) // LD SP,HL
			}
		default:
			for k := rng.Intn(6); k > 0; k-- {
				emit(0x00)
			}
		}
	}
	return code
}

// denseProgram: a loop that touches OAM through a pointer every few cycles, so that every cycle of a line (the last
// cycle of the scan, the first of the pixel transfer, the last of line 153) meets every kind of trigger.
// kind 0: INC HL / DEC HL; 1: LD A,(HL+) / LD A,(HL-) (read and pointer move in one cycle); 2: POP AF / PUSH AF with
// SP in OAM; 3: LD (HL+),A / LD (HL-),A. align NOPs in front shift the loop against the line.
func denseProgram(kind, align int) []int {
	var code []int
	for i := 0; i < align; i++ {
		code = append(code, 0x00)
	}
	code = append(code, 0x21, 0x48, 0xfe, 0x31, 0x50, 0xfe)
	var body []int
	switch kind {
	case 0:
		body = []int{0x23, 0x2b}
	case 1:
		body = []int{0x2a, 0x3a}
	case 2:
		body = []int{0xf1, 0xf5}
	default:
		body = []int{0x22, 0x32}
	}
	for len(code) < 0x11f0 {
		code = append(code, body...)
	}
	return code
}

type oamBugJob struct {
	id     string
	seed   int64
	offAt  int // machine cycle at which the LCD is switched off (-1: stays on)
	cycles int
	warm   int // PPU-only cycles before the CPU starts (chooses the line)
	dense  int // 0: random program; 1 + 8*align + kind: denseProgram(kind, align), objects enabled
	// 100: the PPU is built with its debug flag (Config.DebugLCD), random program;
	// 200 + align: a HALT executed *from OAM* (IME clear, V-blank enabled) during the scan, woken in V-blank
}

func oamBugRun(j oamBugJob) *trace.Scenario {
	rng := rand.New(rand.NewSource(j.seed))
	m := machine.New(intROM, machine.Options{DebugLCD: j.dense == 100})
	oamCode := j.dense >= 200
	sc := &trace.Scenario{ID: j.id, Reset: []any{j.seed, j.offAt, j.cycles, j.warm, j.dense}}
	var writes [][]int
	on := false
	memory.VerifBusObserver = func(mm *memory.Mapper, write bool, addr uint16, value uint8) {
		if on && mm == m.M && write && addr >= 0xfe00 && addr < 0xfea0 {
			writes = append(writes, []int{int(addr), int(value)})
		}
	}
	defer func() { memory.VerifBusObserver = nil }()
	perr := machine.Try(func() {
		code := oamProgram(rng, 0x1200)
		if j.dense > 0 && j.dense < 100 {
			code = denseProgram((j.dense-1)%8, (j.dense-1)/8)
		}
		code = append(code, 0xc3, 0x00, 0xc0)
		for i, b := range code {
			m.M.Write(uint16(0xc000+i), uint8(b))
		}
		// OAM is filled with the LCD off (switched off in mode 3, so nothing is armed), then the LCD is switched on again
		m.QuietLCD()
		for i := 0; i < 160; i++ {
			m.O.Write(uint16(0xfe00+i), uint8(rng.Intn(256)))
		}
		if oamCode {
			// the program lives in OAM row 0 (never corrupted): NOPs, HALT, JR back to the HALT
			prog := []int{0x00, 0x00, 0x00, 0x76, 0x00, 0x18, 0xfc, 0x00}
			for i, b := range prog {
				m.O.Write(uint16(0xfe00+i), uint8(b))
			}
		}
		if j.dense > 0 && j.dense < 100 {
			m.P.WriteLCDC(0x93) // objects on: the PPU then moves through OAM rows during the pixel transfer as well
		} else {
			m.P.WriteLCDC(0x91)
		}
		r := m.CPU.VerifGet()
		r.PC, r.SP = 0xc000, 0xdff0
		if oamCode {
			r.PC = uint16(0xfe00 + (j.dense-200)%3)
		}
		m.CPU.VerifSet(r)
		m.I.Disable()
		if oamCode {
			m.I.WriteIE(0x01)
			m.I.WriteIF(0x00)
		}
		// let the PPU run a little so that it has touched OAM before the guest does
		for i := 0; i < j.warm; i++ {
			m.P.EndMachineCycle()
		}
		for t := 0; t < j.cycles; t++ {
			if t == j.offAt {
				m.M.Write(0xff40, m.M.Read(0xff40)&0x7f)
			}
			if m.CPU.VerifAtBoundary() {
				st := m.CPU.VerifGet()
				if op := int(m.M.VerifPeek(st.PC)); undefinedOps[op] || op == 0x10 || ((st.PC < 0xc000 || st.PC >= 0xd300) && !(oamCode && st.PC >= 0xfe00 && st.PC < 0xfe08)) {
					break // the program left the prepared area (harness guard, not a verdict)
				}
			}
			before := m.O.VerifSnapshot()
			lcd := int(m.M.Read(0xff40) >> 7)
			mb := int(m.M.Read(0xff41) & 3)
			dma0, _ := m.O.VerifDMA()
			writes = writes[:0]
			on = true
			m.Cycle()
			on = false
			after := m.O.VerifSnapshot()
			ma := int(m.M.Read(0xff41) & 3)
			dma1, _ := m.O.VerifDMA()
			delta := [][]int{}
			for i := 0; i < 160; i++ {
				if before[i] != after[i] {
					delta = append(delta, []int{i, int(before[i]), int(after[i])})
				}
			}
			w := make([][]int, len(writes))
			copy(w, writes)
			sc.Ev = append(sc.Ev, []any{lcd, mb, ma, w, delta, trace.B2I(dma0 || dma1)})
		}
	})
	if perr != "" {
		sc.Ev = append(sc.Ev, []any{"panic", perr})
	}
	return sc
}

func oamBugMain(c *Ctx) {
	w := trace.NewWriter(c.Out, "oambug", 60000)
	if c.Mode == "rerun" {
		scs, err := trace.ReadAll(c.In)
		if err != nil {
			die("%v", err)
		}
		for _, s := range scs {
			r := s.Reset.([]any)
			dense := 0
			if len(r) > 4 {
				dense = trace.Int(r[4])
			}
			w.Put(oamBugRun(oamBugJob{s.ID, int64(trace.Int(r[0])), trace.Int(r[1]), trace.Int(r[2]), trace.Int(r[3]), dense}))
		}
		w.Close()
		return
	}
	rng := c.Rand(1701)
	n := 0
	// LCD switched off at every cycle of a line (every cycle of several lines in thorough), then the program runs with the LCD off
	step := 2
	lines := []int{0, 1, 70, 143, 144, 150}
	if c.Thorough() {
		step = 1
		lines = []int{0, 1, 2, 70, 143, 144, 150, 153}
	}
	for _, line := range lines {
		for k := 0; k < 114; k += step {
			w.Put(oamBugRun(oamBugJob{fmt.Sprintf("oambug-off-%d", n), rng.Int63n(1 << 40), 30 + k, 30 + k + 600, 3 + line*114 + rng.Intn(3), 0}))
			n++
		}
	}
	// LCD on throughout: cycles outside mode 2 are judged
	count := 30
	if c.Thorough() {
		count = 300
	}
	for i := 0; i < count; i++ {
		w.Put(oamBugRun(oamBugJob{fmt.Sprintf("oambug-on-%d", n), rng.Int63n(1 << 40), -1, 6000, 3 + rng.Intn(17000), 0}))
		n++
	}
	// the debug build of the PPU (Config.DebugLCD), LCD switched off: nothing may go on stepping
	for k := 0; k < 114; k += 4 * step {
		w.Put(oamBugRun(oamBugJob{fmt.Sprintf("oambug-dbg-%d", n), rng.Int63n(1 << 40), 30 + k, 30 + k + 900, 3 + []int{1, 70, 150}[k%3]*114, 100}))
		n++
	}
	// a HALT fetched from OAM during the scan (every cycle of the scan in turn), woken by V-blank
	for _, line := range []int{140, 136} {
		for k := 0; k < 24; k++ {
			w.Put(oamBugRun(oamBugJob{fmt.Sprintf("oambug-haltoam-%d", n), rng.Int63n(1 << 40), -1, (146-line)*114 + 400, line*114 - 2 + k, 200 + k}))
			n++
		}
	}
	// dense trigger loops, LCD on: over the end of the frame (line 153 into line 0) and over visible lines
	aligns := 6
	for kind := 0; kind < 4; kind++ {
		for align := 0; align < aligns; align++ {
			for _, warm := range []int{17556 - 1500, 300 + rng.Intn(8000)} {
				if !c.Thorough() && warm < 16000 && (kind+align)%2 == 1 {
					continue
				}
				w.Put(oamBugRun(oamBugJob{fmt.Sprintf("oambug-dense-%d", n), rng.Int63n(1 << 40), -1, 3200, warm, 1 + 8*align + kind}))
				n++
			}
		}
	}
	w.Close()
}
