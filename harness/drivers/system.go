package drivers

import (
	"bytes"
	"context"
	"fmt"
	"hash/fnv"
	"image"
	"math/rand"
	"os"
	"path/filepath"
	"sync"
	"time"

	"github.com/scottyw/tetromino/gameboy"
	"github.com/scottyw/tetromino/gameboy/display"
	"github.com/scottyw/tetromino/gameboy/memory"

	"verif/harness/machine"
	"verif/harness/trace"
)

func init() { Registry["system"] = systemMain }

func repoDir() string {
	if r := os.Getenv("VERIF_REPO"); r != "" {
		return r
	}
	return "/repo"
}

// genROM builds a 32 KiB ROM-only image whose program (from 0150) keeps the hardware busy: DIV / TIMA / TAC writes,
// OAM DMA, sound triggers, LCDC toggles, interrupts enabled with handlers that return.
func genROM(seed int64) []byte {
	rng := rand.New(rand.NewSource(seed))
	lcdOffForGood := seed%4 == 3 // every fourth generated ROM switches the LCD off early and leaves it off
	// cartridge kinds: 0 and 3 ROM-only, 1 MBC1 with no RAM declared (the emulator still provides one bank), 2 MBC3+TIMER+RAM
	variant := int(seed % 4)
	rom := make([]byte, 0x8000)
	for i, v := range []int{0x40, 0x48, 0x50, 0x58, 0x60} {
		// each handler leaves its mark (which one ran last shows the order in which simultaneous requests were served)
		copy(rom[v:], []byte{0xf5, 0x3e, byte(i + 1), 0xe0, 0x81, 0xf1, 0xd9}) // PUSH AF; LD A,i; LDH (81),A; POP AF; RETI
	}
	copy(rom[0x100:], []byte{0x00, 0xc3, 0x50, 0x01})
	switch variant {
	case 1:
		rom[0x147], rom[0x148], rom[0x149] = 0x01, 0x00, 0x00
	case 2:
		rom[0x147], rom[0x148], rom[0x149] = 0x10, 0x00, 0x03
		if seed%8 == 6 {
			// the same controller without the clock chip declared (MBC3+RAM+BATTERY): the program below pokes at the clock
			// registers all the same, as a program probing for a clock would
			rom[0x147] = 0x13
		}
	}
	var code []byte
	emit := func(b ...int) {
		for _, x := range b {
			code = append(code, byte(x))
		}
	}
	emit(0x31, 0xfe, 0xdf)             // LD SP,DFFE
	emit(0x3e, 0x05, 0xe0, 0xff)       // IE = VBlank | Timer
	emit(0x3e, 0x05, 0xe0, 0x07, 0xfb) // TAC = 5, EI
	// a scene worth rendering: LCD off, some tile data, forty sprites crowded into a 48 x 48 pixel area (so that several
	// opaque ones overlap on most of their lines), palettes that tell the shades apart; the table goes to OAM by DMA
	emit(0x3e, 0x11, 0xe0, 0x40)
	emit(0x21, 0x00, 0x80)
	for i := 0; i < 96; i++ {
		emit(0x3e, []int{0xff, 0x0f, 0xf0, 0x3c, 0xaa, 0x81}[rng.Intn(6)]|rng.Intn(256), 0x22)
	}
	emit(0x21, 0x00, 0xc1)
	for i := 0; i < 40; i++ {
		for _, v := range []int{16 + rng.Intn(40), 8 + rng.Intn(40), rng.Intn(6), []int{0x00, 0x10, 0x20, 0x40, 0x80, 0x90}[rng.Intn(6)]} {
			emit(0x3e, v, 0x22)
		}
	}
	emit(0x3e, 0xe4, 0xe0, 0x47, 0x3e, 0xd2, 0xe0, 0x48, 0x3e, 0x1b, 0xe0, 0x49)
	emit(0x3e, 0xc1, 0xe0, 0x46)
	for i := 0; i < 170; i++ {
		emit(0x00)
	}
	if !lcdOffForGood {
		emit(0x3e, 0x93, 0xe0, 0x40)
	}
	// every eighth generated ROM ends in STOP: the hardware goes on, cycle by cycle, around a stopped CPU
	stopAt := -1
	if seed%8 == 7 {
		stopAt = len(code) + 100 + rng.Intn(400)
	}
	for len(code) < 0x3000 {
		if stopAt >= 0 && len(code) >= stopAt {
			emit(0x10, 0x00)
			stopAt = -1
		}
		switch rng.Intn(19) {
		case 18:
			// sound switched off, some time later on again (everything else keeps running meanwhile)
			emit(0xaf, 0xe0, 0x26)
			for k := rng.Intn(40); k > 0; k-- {
				emit(0x00)
			}
			emit(0x3e, 0x80, 0xe0, 0x26, 0x3e, 0x77, 0xe0, 0x24, 0x3e, 0xff, 0xe0, 0x25)
		case 17:
			// channel 1 with a random sweep setting, triggered; NR10 and NR52 as the program sees them go to work RAM
			a := 0xc000 + rng.Intn(0x1e00)
			emit(0x3e, rng.Intn(128), 0xe0, 0x10, 0x3e, 0xf0|rng.Intn(8), 0xe0, 0x12, 0x3e, rng.Intn(256), 0xe0, 0x13, 0x3e, 0x80|rng.Intn(8), 0xe0, 0x14)
			emit(0xf0, []int{0x26, 0x10}[rng.Intn(2)], 0xea, a&0xff, a>>8)
		case 16:
			// CB-prefixed operations on (HL), BIT n,(HL) most of all
			emit(0x21, rng.Intn(256), 0xc0+rng.Intn(0x1e), 0xcb, []int{0x46, 0x4e, 0x7e, 0x66, 0x86, 0xc6, 0x16, 0x36, 0x5e}[rng.Intn(9)])
		case 0:
			emit(0x3e, rng.Intn(256), 0xe0, 0x04) // DIV
		case 1:
			emit(0x3e, 0xf0+rng.Intn(16), 0xe0, 0x05) // TIMA close to overflow
		case 2:
			emit(0x3e, rng.Intn(0xc0), 0xe0, 0x06) // TMA (at least 256 cycles between overflows: no interrupt storm)
		case 3:
			emit(0x3e, 4+rng.Intn(4), 0xe0, 0x07) // TAC
		case 4:
			emit(0x3e, 0xc0+rng.Intn(0x1f), 0xe0, 0x46) // DMA
		case 5:
			emit(0x3e, 0xf0, 0xe0, 0x17, 0x3e, rng.Intn(256), 0xe0, 0x18, 0x3e, 0x80|rng.Intn(8), 0xe0, 0x19) // ch2 trigger
		case 6:
			if lcdOffForGood {
				emit(0x3e, []int{0x11, 0x13, 0x01}[rng.Intn(3)], 0xe0, 0x40)
			} else {
				emit(0x3e, []int{0x91, 0x11, 0x93, 0x93, 0x97}[rng.Intn(5)], 0xe0, 0x40) // LCDC
			}
		case 13:
			emit(0x3e, []int{0x05, 0x01, 0x00, 0x1b, 0xe0, 0x04, 0x1f}[rng.Intn(7)], 0xe0, 0xff) // IE: the timer request must not depend on it
		case 14:
			if variant == 1 || variant == 2 {
				// cartridge RAM: enable, read a cell (before anything was written: whatever a fresh cartridge holds), store it, write it
				a := 0xa000 + rng.Intn(0x40)
				d := 0xc000 + rng.Intn(0x1e00)
				emit(0x3e, 0x0a, 0xea, 0x00, 0x00, 0xfa, a&0xff, a>>8, 0xea, d&0xff, d>>8, 0xe0, 0x01, 0x3e, rng.Intn(256), 0xea, a&0xff, a>>8)
				if variant == 2 && rng.Intn(3) == 0 {
					// the clock halted (or released again) through register 0C; everything else must go on regardless
					emit(0x3e, 0x0c, 0xea, 0x00, 0x40, 0x3e, []int{0x40, 0x40, 0x00}[rng.Intn(3)], 0xea, 0x00, 0xa0, 0xaf, 0xea, 0x00, 0x40)
				}
				if variant == 2 && rng.Intn(2) == 0 {
					// clock: select a register, latch, read, store; then back to RAM bank 0
					emit(0x3e, 0x08+rng.Intn(5), 0xea, 0x00, 0x40, 0xaf, 0xea, 0x00, 0x60, 0x3c, 0xea, 0x00, 0x60, 0xfa, 0x00, 0xa0, 0xea, d&0xff, d>>8, 0xaf, 0xea, 0x00, 0x40)
				}
			}
		case 7:
			emit(0x3e, rng.Intn(256), 0xe0, 0x01) // serial
		case 8:
			emit(0x21, rng.Intn(256), 0xc0+rng.Intn(0x1e), 0x36, rng.Intn(256)) // LD HL,nn; LD (HL),n
		case 9:
			// HALT, with the timer interrupt enabled and due within 64 cycles (IE may have been cleared above: an idle
			// program exercises nothing)
			if rng.Intn(3) == 0 {
				// the same with the master enable clear: the CPU resumes without a dispatch, EI lets it happen afterwards
				emit(0xf3, 0x3e, 0x05, 0xe0, 0xff, 0x3e, 0x05, 0xe0, 0x07, 0x3e, 0xf0+rng.Intn(16), 0xe0, 0x05, 0x76, 0xfb)
			} else {
				emit(0x3e, 0x05, 0xe0, 0xff, 0x3e, 0x05, 0xe0, 0x07, 0x3e, 0xf0+rng.Intn(16), 0xe0, 0x05, 0x76)
			}
		case 10:
			emit(0x3e, rng.Intn(256), 0xe0, 0x0f) // IF
		case 11, 12:
			// what the CPU sees of the other components in this very cycle: LY, STAT, DIV, TIMA stored to work RAM
			a := 0xc000 + rng.Intn(0x1e00)
			emit(0xf0, []int{0x44, 0x41, 0x04, 0x05, 0x0f, 0x10, 0x26}[rng.Intn(7)], 0xea, a&0xff, a>>8)
		default:
			for k := rng.Intn(12); k > 0; k-- {
				emit([]int{0x00, 0x04, 0x0c, 0x3c, 0x87, 0xa8}[rng.Intn(6)])
			}
		}
	}
	emit(0xc3, 0x50, 0x01)
	copy(rom[0x150:], code)
	return rom
}

func romList(c *Ctx, tmp string, n int) []string {
	base := filepath.Join(repoDir(), "gameboy", "testdata")
	cands := []string{
		"blargg/cpu_instrs/individual/02-interrupts.gb", "blargg/instr_timing/instr_timing.gb", "blargg/halt_bug.gb",
		"blargg/cpu_instrs/individual/01-special.gb", "blargg/mem_timing/individual/01-read_timing.gb", "blargg/dmg_sound/rom_singles/02-len ctr.gb",
		"blargg/cpu_instrs/individual/03-op sp,hl.gb", "blargg/cpu_instrs/individual/09-op r,r.gb", "blargg/dmg_sound/rom_singles/04-sweep.gb",
		"blargg/mem_timing/individual/02-write_timing.gb", "blargg/cpu_instrs/individual/07-jr,jp,call,ret,rst.gb", "blargg/cpu_instrs/individual/11-op a,(hl).gb",
	}
	var out []string
	rng := c.Rand(2600)
	for i := 0; i < n; i++ {
		if i%2 == 0 {
			p := filepath.Join(tmp, fmt.Sprintf("gen-%d.gb", i))
			os.WriteFile(p, genROM(rng.Int63n(1<<40)&^7|int64(i/2%8)), 0o644)
			out = append(out, p)
		} else {
			p := filepath.Join(base, cands[(i/2)%len(cands)])
			if _, err := os.Stat(p); err == nil {
				out = append(out, p)
			}
		}
	}
	if n >= 16 {
		// a second, different program on the clock-less MBC3 cartridge (gen-12 is the first)
		p := filepath.Join(tmp, "gen-12b.gb")
		os.WriteFile(p, genROM(rng.Int63n(1<<40)&^7|6), 0o644)
		out = append(out, p)
	}
	return out
}

// remapGen maps the path of a generated ROM of an earlier run to the regenerated file of this run.
func remapGen(rom, tmp string) string {
	if b := filepath.Base(rom); len(b) > 4 && b[:4] == "gen-" {
		return filepath.Join(tmp, b)
	}
	return rom
}

func digest(parts ...[]byte) int {
	h := fnv.New32a()
	for _, p := range parts {
		h.Write(p)
	}
	return int(h.Sum32() & 0x7fffffff)
}

// cyclesRun: the observer inside the real runFrame logs component progress after every machine cycle.
func cyclesRun(id, rom string, frames int, skip int) *trace.Scenario {
	sc := &trace.Scenario{ID: id, Reset: []any{"cycles", rom, frames, skip}}
	perr := machine.Try(func() {
		gb := gameboy.New(gameboy.Config{RomFilename: rom, DisableVideoOutput: true, DisableAudioOutput: true, SerialWriter: &bytes.Buffer{}})
		var wroteDiv, startedDma, wroteTima, wroteIF int
		logging := false
		memory.VerifBusObserver = func(mm *memory.Mapper, write bool, addr uint16, value uint8) {
			if !write || mm != gb.VerifMapper() {
				return
			}
			switch addr {
			case 0xff04:
				wroteDiv = 1
			case 0xff46:
				startedDma = 1
			case 0xff05, 0xff06, 0xff07:
				wroteTima = 1 // a TMA/TAC/TIMA write can make TIMA read 00 without an overflow
			case 0xff0f:
				wroteIF = 1
			}
		}
		gameboy.VerifCycleObserver = func(g *gameboy.Gameboy, mtick int) {
			if logging {
				dmaRunning, dmaIdx := gbDMA(g)
				d := -1
				if dmaRunning {
					d = dmaIdx
				}
				at, _ := g.VerifAudio().VerifTicks()
				rtc := g.VerifMapper().VerifRTCGet()
				sc.Ev = append(sc.Ev, []any{"c", mtick, int(g.VerifTimer().VerifCounter()), int(at), rtc.Ticks, d, int(g.VerifTimer().ReadTIMA()),
					int(g.VerifInterrupts().ReadIF() & 0x1f), wroteDiv, startedDma, wroteTima, trace.B2I(rtc.Halt), wroteIF})
			}
			wroteDiv, startedDma, wroteTima, wroteIF = 0, 0, 0, 0
		}
		defer func() { gameboy.VerifCycleObserver = nil; memory.VerifBusObserver = nil }()
		for f := 0; f < skip; f++ {
			gb.VerifRunFrame(context.Background())
		}
		logging = true
		for f := 0; f < frames; f++ {
			before := len(sc.Ev)
			gb.VerifRunFrame(context.Background())
			sc.Ev = append(sc.Ev, []any{"f", len(sc.Ev) - before})
		}
	})
	if perr != "" {
		sc.Ev = append(sc.Ev, []any{"panic", perr})
	}
	return sc
}

func gbDMA(g *gameboy.Gameboy) (bool, int) {
	// the OAM is reachable through the mapper's peek only; DMA progress comes from the oam hook via the machine's mapper
	return g.VerifMapper().VerifDMA()
}

// twinRun: the same ROM run by the real runFrame and by the reference loop (CPU, video, memory, audio, timer -> IF);
// the per-frame digests must agree.
func twinRun(id, rom string, frames int) *trace.Scenario {
	sc := &trace.Scenario{ID: id, Reset: []any{"twin", rom, frames, 0}}
	perr := machine.Try(func() {
		img, err := os.ReadFile(rom)
		if err != nil {
			panic(err)
		}
		var da, db []int
		sa := &bytes.Buffer{}
		gb := gameboy.New(gameboy.Config{RomFilename: rom, DisableVideoOutput: true, DisableAudioOutput: true, SerialWriter: sa})
		for f := 0; f < frames; f++ {
			gb.VerifRunFrame(context.Background())
			da = append(da, gbDigest(gb, sa))
		}
		m := machine.New(img, machine.Options{})
		for f := 0; f < frames; f++ {
			for i := 0; i < 17556; i++ {
				m.Cycle()
			}
			db = append(db, machineDigest(m))
		}
		for f := 0; f < frames; f++ {
			sc.Ev = append(sc.Ev, []any{"d", f, da[f], db[f]})
		}
	})
	if perr != "" {
		sc.Ev = append(sc.Ev, []any{"panic", perr})
	}
	return sc
}

func regBytes(r interface{}) []byte { return []byte(fmt.Sprint(r)) }

func gbDigest(gb *gameboy.Gameboy, serial *bytes.Buffer) int {
	m := gb.VerifMapper()
	var mem []byte
	for a := 0x8000; a < 0x10000; a++ {
		if a == 0xff00 {
			continue
		}
		mem = append(mem, m.VerifPeek(uint16(a)))
	}
	return digest(regBytes(gb.VerifCPU().VerifGet()), mem, gb.VerifPPU().Frame().Pix, m.DumpRAM(), serial.Bytes(), regBytes(gb.VerifTimer().VerifCounter()), regBytes(m.VerifRTCGet()))
}

func machineDigest(mc *machine.Machine) int {
	var mem []byte
	for a := 0x8000; a < 0x10000; a++ {
		if a == 0xff00 {
			continue
		}
		mem = append(mem, mc.M.VerifPeek(uint16(a)))
	}
	return digest(regBytes(mc.CPU.VerifGet()), mem, mc.P.Frame().Pix, mc.M.DumpRAM(), mc.Serial.Bytes(), regBytes(mc.T.VerifCounter()), regBytes(mc.M.VerifRTCGet()))
}

// runRun: gameboy.Run with the stand-in display / speakers; the stop is requested by cancelling the context at a
// given frame or by the display asking to close.
func runRun(id, rom string, mode string, at int, audio bool) *trace.Scenario {
	sc := &trace.Scenario{ID: id, Reset: []any{"run", rom, mode, at, trace.B2I(audio)}}
	perr := machine.Try(func() {
		ctx, cancel := context.WithCancel(context.Background())
		if mode == "deadline" {
			// the context ends because its deadline passes (Err() = DeadlineExceeded): that is a cancellation too. The
			// expiry is tied to an emulated cycle (a context of our own), so that the scenario does not depend on the host's clock
			dc := &deadlineCtx{done: make(chan struct{})}
			ctx, cancel = dc, dc.expire
		}
		defer cancel()
		requested := false
		display.VerifCloseAfter = 0
		if mode == "close" {
			display.VerifCloseAfter = int64(at)
		}
		display.VerifOnFrame = func(n int64, f *image.RGBA) {
			sc.Ev = append(sc.Ev, []any{"frame", int(n)})
			if mode == "cancel" && int(n) == at && !requested {
				requested = true
				cancel()
				sc.Ev = append(sc.Ev, []any{"req"})
			}
			if mode == "close" && int(n) == at && !requested {
				requested = true
				sc.Ev = append(sc.Ev, []any{"req"})
			}
		}
		// "cancelmid": the context is cancelled in the middle of frame `at` (at a machine cycle derived from `at`)
		total := 0
		gameboy.VerifCycleObserver = func(g *gameboy.Gameboy, mtick int) {
			total++
			if (mode == "cancelmid" || mode == "deadline") && !requested && total == (at-1)*17556+1+(at*7919)%17000 {
				requested = true
				cancel()
				sc.Ev = append(sc.Ev, []any{"req"})
			}
		}
		defer func() { display.VerifOnFrame = nil; display.VerifCloseAfter = 0; gameboy.VerifCycleObserver = nil }()
		gb := gameboy.New(gameboy.Config{RomFilename: rom, DisableVideoOutput: false, DisableAudioOutput: !audio, SerialWriter: &bytes.Buffer{}})
		done := make(chan struct{})
		go func() { gb.Run(ctx); close(done) }()
		select {
		case <-done:
		case <-time.After(60 * time.Second):
			sc.Ev = append(sc.Ev, []any{"hang", "Run did not return within 60 s of emulation after the stop request"})
			cancel()
			return
		}
		d := gb.VerifDisplay()
		spk := 0
		if s := gb.VerifSpeakers(); s != nil {
			spk = int(s.Cleanups)
		}
		sc.Ev = append(sc.Ev, []any{"ret", int(d.Cleanups), spk, 1, trace.B2I(audio)}, []any{"cyc", total % 17556})
	})
	if perr != "" {
		sc.Ev = append(sc.Ev, []any{"panic", perr})
	}
	return sc
}

// deadlineCtx is a context that ends with DeadlineExceeded when expire is called.
type deadlineCtx struct {
	done chan struct{}
	once sync.Once
	mu   sync.Mutex
	err  error
}

func (d *deadlineCtx) Deadline() (time.Time, bool) { return time.Time{}, false }
func (d *deadlineCtx) Done() <-chan struct{}       { return d.done }
func (d *deadlineCtx) Value(key any) any           { return nil }
func (d *deadlineCtx) Err() error {
	d.mu.Lock()
	defer d.mu.Unlock()
	return d.err
}
func (d *deadlineCtx) expire() {
	d.once.Do(func() {
		d.mu.Lock()
		d.err = context.DeadlineExceeded
		d.mu.Unlock()
		close(d.done)
	})
}

func systemMain(c *Ctx) {
	if c.Mode == "detchild" {
		systemDetChild(c)
		return
	}
	if c.Mode == "multichild" {
		systemMultiChild(c)
		return
	}
	w := trace.NewWriter(c.Out, "system", 40000)
	tmp, _ := os.MkdirTemp(c.Out, "verif-roms") // inside the run's own scratch directory
	defer os.RemoveAll(tmp)
	if c.Mode == "rerun" {
		scs, err := trace.ReadAll(c.In)
		if err != nil {
			die("%v", err)
		}
		// generated ROMs are regenerated under the same names
		romList(c, tmp, 24)
		for _, s := range scs {
			r := s.Reset.([]any)
			rom := ""
			if rs, ok := r[1].(string); ok {
				rom = remapGen(rs, tmp)
			}
			switch trace.Str(r[0]) {
			case "cycles":
				w.Put(cyclesRun(s.ID, rom, trace.Int(r[2]), trace.Int(r[3])))
			case "twin":
				w.Put(twinRun(s.ID, rom, trace.Int(r[2])))
			case "run":
				w.Put(runRun(s.ID, rom, trace.Str(r[2]), trace.Int(r[3]), trace.Int(r[4]) == 1))
			default:
				systemRerunOther(c, w, s, tmp)
			}
		}
		w.Close()
		return
	}
	if c.Want("cycles") {
		n, frames := 3, 2
		if c.Thorough() {
			n, frames = 16, 4
		}
		rng := c.Rand(2601)
		all := romList(c, tmp, 16)
		if n < len(all) {
			all = []string{all[0], all[1], all[2], all[4], all[6], all[14]} // all[14] is the generated ROM that ends in STOP
		}
		for i, rom := range all {
			w.Put(cyclesRun(fmt.Sprintf("system-cycles-%d", i), rom, frames, rng.Intn(6)))
		}
	}
	if c.Want("twin") {
		n, frames := 6, 8
		if c.Thorough() {
			n, frames = 16, 40
		}
		for i, rom := range romList(c, tmp, n) {
			w.Put(twinRun(fmt.Sprintf("system-twin-%d", i), rom, frames))
		}
	}
	if c.Want("run") {
		n := 8
		if c.Thorough() {
			n = 40
		}
		rng := c.Rand(2602)
		all := romList(c, tmp, 8)
		// generated ROMs of all four variants (the fourth keeps the LCD off) and two test ROMs
		roms := []string{all[0], all[6], all[1], all[2], all[6], all[3], all[4], all[6]}
		for i := 0; i < n; i++ {
			mode := []string{"cancel", "close", "deadline", "cancelmid", "close", "cancelmid"}[i%6]
			w.Put(runRun(fmt.Sprintf("system-run-%d", i), roms[i%len(roms)], mode, 1+rng.Intn(12), i%4 < 2))
		}
	}
	systemGenOther(c, w, tmp)
	w.Close()
}
