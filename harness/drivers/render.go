package drivers

import (
	"fmt"
	"math/rand"
	"sort"

	"verif/harness/machine"
	"verif/harness/trace"
)

func init() { Registry["render"] = renderMain }

type renderJob struct {
	id     string
	seed   int64
	pixels int // random pixels in addition to the edge rows; <0: every pixel of the frame
}

// calibrate: a blank tile everywhere and BGP = s gives the colour of shade s, whatever the bit-plane order is.
func calibrate() [][]int {
	var shades [][]int
	for s := 0; s < 4; s++ {
		m := machine.New(intROM, machine.Options{NoCPU: true})
		m.QuietLCD()
		for a := 0x8000; a < 0xa000; a++ {
			m.M.Write(uint16(a), 0)
		}
		m.M.Write(0xff47, uint8(s))
		m.M.Write(0xff42, 0)
		m.M.Write(0xff43, 0)
		m.M.Write(0xff40, 0x91)
		for i := 0; i < 17556+200; i++ {
			m.P.EndMachineCycle()
		}
		c := m.P.Frame().RGBAAt(80, 72)
		shades = append(shades, []int{int(c.R), int(c.G), int(c.B), int(c.A)})
	}
	return shades
}

func renderRun(j renderJob, shades [][]int) *trace.Scenario {
	rng := rand.New(rand.NewSource(j.seed))
	m := machine.New(intROM, machine.Options{NoCPU: true})
	sc := &trace.Scenario{ID: j.id}
	perr := machine.Try(func() {
		m.QuietLCD()
		// tile data: a mix of random, solid and sparse tiles
		for t := 0; t < 384; t++ {
			style := rng.Intn(5)
			for k := 0; k < 16; k++ {
				var b int
				switch style {
				case 0:
					b = 0
				case 1:
					b = []int{0x00, 0xff}[rng.Intn(2)]
				case 2:
					b = 1 << uint(rng.Intn(8))
				default:
					b = rng.Intn(256)
				}
				m.M.Write(uint16(0x8000+t*16+k), uint8(b))
			}
		}
		for a := 0x9800; a < 0xa000; a++ {
			m.M.Write(uint16(a), uint8(rng.Intn(256)))
		}
		// up to 10 objects, ordered by X in OAM, anywhere including partly off every edge; the rest hidden
		nobj := rng.Intn(11)
		// every third scene is a crowd: ten objects within a few pixels of each other, so that at most pixels of the
		// area several objects compete, transparent and opaque ones, with either palette, flipped or not
		style := int(j.seed % 5) // 0, 3: a crowd; 1: bottom-and-top rows; others: scattered
		crowd := style == 0 || style == 3
		crowdX := 8 + rng.Intn(150)
		// every fifth scene (unless a crowd): six objects on the bottom lines and five on the top lines, side by side -
		// never more than ten on a line, eleven if a per-line count leaked from line 143 of one frame into line 0 of the next
		edges := style == 1
		if crowd {
			nobj = 10
		}
		if edges {
			nobj = 11
		}
		xs := make([]int, nobj)
		for i := range xs {
			if crowd {
				xs[i] = crowdX + rng.Intn(10)
				continue
			}
			if edges {
				xs[i] = 10 + 13*i + rng.Intn(4)
				continue
			}
			switch rng.Intn(5) {
			case 0:
				xs[i] = 1 + rng.Intn(8) // partly off the left edge
			case 1:
				xs[i] = 160 + rng.Intn(8) // partly off the right edge
			default:
				xs[i] = 1 + rng.Intn(167)
			}
		}
		sort.Ints(xs)
		// many objects share rows so that overlaps and the OAM-order rule are exercised
		baseY := 16 + rng.Intn(128)
		for i := 0; i < 40; i++ {
			y, x, t, a := 0, 0, rng.Intn(256), rng.Intn(256)
			if i < nobj {
				x = xs[i]
				if crowd {
					y = baseY + rng.Intn(8) - 4
				} else if edges {
					y = []int{152, 16}[i%2]
					if i == 0 {
						y = 152
					}
				} else {
					switch rng.Intn(6) {
					case 0:
						y = 9 + rng.Intn(7) // partly off the top edge
					case 1:
						y = 145 + rng.Intn(15) // partly off the bottom edge
					case 2, 3:
						y = baseY + rng.Intn(12) - 6
					default:
						y = 9 + rng.Intn(151)
					}
				}
			} else if rng.Intn(2) == 0 {
				y = 160 + rng.Intn(96) // hidden below the screen
				x = rng.Intn(256)
			}
			if edges && i < nobj {
				t, a = 1+i%2, a&0xf0 // solid tiles (written below), so that a missing object is seen
			}
			m.M.Write(uint16(0xfe00+4*i), uint8(y))
			m.M.Write(uint16(0xfe00+4*i+1), uint8(x))
			m.M.Write(uint16(0xfe00+4*i+2), uint8(t))
			m.M.Write(uint16(0xfe00+4*i+3), uint8(a))
		}
		lcdc := 0x81 | rng.Intn(2)<<1 | rng.Intn(2)<<3 | rng.Intn(2)<<4 | rng.Intn(2)<<5 | rng.Intn(2)<<6
		if edges {
			lcdc |= 0x02
			for k := 0; k < 32; k++ {
				m.M.Write(uint16(0x8010+k), uint8([]int{0xff, 0x0f, 0xff, 0xf0}[k%4]|0x81))
			}
		}
		wx := 7 + rng.Intn(160)
		if rng.Intn(4) == 0 {
			wx = []int{7, 8, 165, 166}[rng.Intn(4)] // the edges of the window's horizontal range (the statement covers WX 7-166)
		}
		wy := rng.Intn(144)
		if rng.Intn(4) == 0 {
			wy = rng.Intn(256)
		}
		regs := []int{lcdc, rng.Intn(256), rng.Intn(256), wx, wy, rng.Intn(256), rng.Intn(256), rng.Intn(256)}
		if rng.Intn(3) == 0 {
			regs[5], regs[6], regs[7] = 0xe4, 0xe4, 0x1b
		}
		for i, a := range []int{0xff43, 0xff42, 0xff4b, 0xff4a, 0xff47, 0xff48, 0xff49} {
			m.M.Write(uint16(a), uint8(regs[i+1]))
		}
		// the scene is what can be read back
		vram := make([]int, 0x2000)
		for i := range vram {
			vram[i] = int(m.M.Read(uint16(0x8000 + i)))
		}
		oamv := make([]int, 160)
		for i := range oamv {
			oamv[i] = int(m.M.Read(uint16(0xfe00 + i)))
		}
		m.M.Write(0xff40, uint8(lcdc))
		rb := []int{int(m.M.Read(0xff40)), int(m.M.Read(0xff43)), int(m.M.Read(0xff42)), int(m.M.Read(0xff4b)), int(m.M.Read(0xff4a)), int(m.M.Read(0xff47)), int(m.M.Read(0xff48)), int(m.M.Read(0xff49))}
		sc.Reset = map[string]any{"vram": vram, "oam": oamv, "regs": rb, "shades": shades, "seed": j.seed, "pixels": j.pixels}
		// first look: the first frame after switch-on, all 144 lines drawn (V-blank has begun)
		for i := 0; i < 16450; i++ {
			m.P.EndMachineCycle()
		}
		f := m.P.Frame()
		first := map[[2]int][4]int{}
		for y := 0; y < 2; y++ {
			for x := 0; x < 160; x++ {
				c := f.RGBAAt(x, y)
				first[[2]int{x, y}] = [4]int{int(c.R), int(c.G), int(c.B), int(c.A)}
			}
		}
		// second look: the top two lines have been drawn again by the second frame
		for i := 16450; i < 17556+200; i++ {
			m.P.EndMachineCycle()
		}
		f = m.P.Frame()
		put := func(x, y int) {
			if v, ok := first[[2]int{x, y}]; ok {
				sc.Ev = append(sc.Ev, []any{x, y, v[0], v[1], v[2], v[3]})
			}
			c := f.RGBAAt(x, y)
			sc.Ev = append(sc.Ev, []any{x, y, int(c.R), int(c.G), int(c.B), int(c.A)})
		}
		if j.pixels < 0 {
			for y := 0; y < 144; y++ {
				for x := 0; x < 160; x++ {
					put(x, y)
				}
			}
			return
		}
		rows := map[int]bool{0: true, 1: true, 143: true}
		for i := 0; i < nobj; i++ {
			oy := oamv[4*i]
			for _, r := range []int{oy - 17, oy - 16, oy - 13, oy - 9, oy - 8} {
				if r >= 0 && r < 144 {
					rows[r] = true
				}
			}
		}
		if wy < 144 {
			rows[wy] = true
			if wy > 0 {
				rows[wy-1] = true
			}
		}
		var rl []int
		for r := range rows {
			rl = append(rl, r)
		}
		sort.Ints(rl)
		if len(rl) > 14 {
			rng.Shuffle(len(rl), func(a, b int) { rl[a], rl[b] = rl[b], rl[a] })
			rl = rl[:14]
		}
		for _, y := range rl {
			for x := 0; x < 160; x++ {
				put(x, y)
			}
		}
		for i := 0; i < j.pixels; i++ {
			put(rng.Intn(160), rng.Intn(144))
		}
	})
	if perr != "" {
		if sc.Reset == nil {
			sc.Reset = map[string]any{"vram": []int{}, "oam": []int{}, "regs": []int{}, "shades": shades, "seed": j.seed, "pixels": j.pixels}
		}
		sc.Ev = append(sc.Ev, []any{"panic", perr})
	}
	return sc
}

func renderMain(c *Ctx) {
	w := trace.NewWriter(c.Out, "render", 12000)
	shades := calibrate()
	if c.Mode == "rerun" {
		scs, err := trace.ReadAll(c.In)
		if err != nil {
			die("%v", err)
		}
		for _, s := range scs {
			r := s.Reset.(map[string]any)
			w.Put(renderRun(renderJob{s.ID, int64(trace.Int(r["seed"])), trace.Int(r["pixels"])}, shades))
		}
		w.Close()
		return
	}
	rng := c.Rand(1501)
	count, pixels := 30, 600
	if c.Thorough() {
		count, pixels = 300, -1
	}
	jobs := make([]renderJob, count)
	for i := range jobs {
		jobs[i] = renderJob{fmt.Sprintf("render-%d", i), rng.Int63n(1 << 40), pixels}
		if c.Thorough() && i%3 != 0 {
			jobs[i].pixels = 2500
		}
	}
	res := make([]*trace.Scenario, count)
	// sequential on purpose: a renderer that shares state between instances (C25) must not make this check flaky
	for i := range jobs {
		res[i] = renderRun(jobs[i], shades)
	}
	for _, s := range res {
		w.Put(s)
	}
	w.Close()
}
