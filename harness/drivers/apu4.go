package drivers

import (
	"fmt"
	"math"
	"math/rand"
	"time"

	"github.com/scottyw/tetromino/gameboy/audio"

	"verif/harness/machine"
	"verif/harness/trace"
)

// ---- C20: the sample stream -------------------------------------------------------------

func scale(f float32) (int, int) {
	d := float64(f)
	if math.IsNaN(d) || math.IsInf(d, 0) {
		return 0, 1
	}
	return int(math.Round(d * (1 << 24))), 0
}

type strOp struct {
	at   int // machine cycle before which the write happens
	addr int
	v    int
}

// streamSchedule: random register schedule (power, triggers, NR50/NR51 routing, volumes, lengths)
func streamSchedule(rng *rand.Rand, cycles int, vary int) []strOp {
	var ops []strOp
	t := 0
	regsOf := func(ch int) []int {
		return [][]int{{0xff10, 0xff11, 0xff12, 0xff13, 0xff14}, {0xff16, 0xff17, 0xff18, 0xff19}, {0xff1a, 0xff1b, 0xff1c, 0xff1d, 0xff1e}, {0xff20, 0xff21, 0xff22, 0xff23}}[ch]
	}
	ops = append(ops, strOp{0, 0xff26, 0x80}, strOp{0, 0xff24, rng.Intn(256)}, strOp{0, 0xff25, rng.Intn(256)})
	for t < cycles {
		t += rng.Intn(cycles/60 + 1)
		switch r := rng.Intn(20); {
		case r < 2:
			ops = append(ops, strOp{t, 0xff26, []int{0x00, 0x80, 0x80}[rng.Intn(3)]})
		case r < 5:
			v := rng.Intn(256)
			if rng.Intn(3) == 0 {
				// both sides routed alike except for one channel
				h := rng.Intn(16)
				v = h<<4 | h ^ 1<<uint(rng.Intn(4))
				if rng.Intn(2) == 0 {
					v = (h^1<<uint(rng.Intn(4)))<<4 | h
				}
			}
			ops = append(ops, strOp{t, 0xff25, v})
		case r < 7:
			ops = append(ops, strOp{t, 0xff24, rng.Intn(256)})
		case r < 9:
			for i := 0; i < 16; i++ {
				ops = append(ops, strOp{t, 0xff30 + i, rng.Intn(256)})
			}
		default:
			ch := rng.Intn(4)
			rs := regsOf(ch)
			short := rng.Intn(3) == 0 // length data close to the end: the channel expires soon after (if length is enabled)
			// volume / DAC on, frequency, trigger
			for _, a := range rs {
				v := rng.Intn(256)
				switch a {
				case 0xff11, 0xff16, 0xff20:
					if short {
						v = v&0xc0 | 60 + rng.Intn(4)
					}
				case 0xff1b:
					if short {
						v = 250 + rng.Intn(6)
					}
				case 0xff12, 0xff17, 0xff21:
					v |= 0xf0
					if rng.Intn(6) == 0 {
						v = 0
					}
				case 0xff1a:
					v = 0x80
				case 0xff14, 0xff19, 0xff1e, 0xff23:
					v = v&0x47 | 0x80
				}
				ops = append(ops, strOp{t, a, v})
			}
		}
	}
	_ = vary
	return ops
}

// soloSchedule: a single channel routed to both sides, triggered with length enabled and short length data so that it
// expires (its status bit drops while its DAC stays on); nothing else is ever triggered.
func soloSchedule(rng *rand.Rand, cycles int) []strOp {
	ch := rng.Intn(4)
	nrx1 := []int{0xff11, 0xff16, 0xff1b, 0xff20}[ch]
	nrx2 := []int{0xff12, 0xff17, 0xff1a, 0xff21}[ch]
	nrx3 := []int{0xff13, 0xff18, 0xff1d, 0xff22}[ch]
	nrx4 := []int{0xff14, 0xff19, 0xff1e, 0xff23}[ch]
	ops := []strOp{{0, 0xff26, 0x80}, {0, 0xff24, 0x77}, {0, 0xff25, 0x11 << uint(ch)}}
	for i := 0; i < 16; i++ {
		ops = append(ops, strOp{0, 0xff30 + i, 0x10 + rng.Intn(0xef)})
	}
	t := 0
	for t < cycles {
		dac := 0xf0 | rng.Intn(8)
		if ch == 2 {
			dac = 0x80
			ops = append(ops, strOp{t, 0xff1c, 0x20})
		}
		lenData := 0x3c + rng.Intn(4)
		if ch == 2 {
			lenData = 0xf8 + rng.Intn(8)
		}
		ops = append(ops, strOp{t, nrx2, dac}, strOp{t, nrx1, lenData | rng.Intn(4)<<6}, strOp{t, nrx3, rng.Intn(256)}, strOp{t, nrx4, 0xc0 | rng.Intn(8)})
		t += 4096 * (2 + rng.Intn(14))
	}
	return ops
}

// loudSchedule: everything as loud as it gets - all four channels at volume 15 routed to both sides, master volumes 7
// (with and without the Vin bits), square duties and frequencies equal so that the highs coincide, wave RAM all F,
// retriggered now and then: the mix must still stay below 1.
func loudSchedule(rng *rand.Rand, cycles int) []strOp {
	ops := []strOp{{0, 0xff26, 0x80}, {0, 0xff24, []int{0x77, 0xf7, 0x7f, 0xff}[rng.Intn(4)]}, {0, 0xff25, 0xff}}
	for i := 0; i < 16; i++ {
		ops = append(ops, strOp{0, 0xff30 + i, 0xff})
	}
	t := 0
	for t < cycles {
		f := []int{0x700, 0x7c0, 0x400, rng.Intn(2048)}[rng.Intn(4)]
		duty := rng.Intn(4) << 6
		ops = append(ops,
			strOp{t, 0xff10, 0x00}, strOp{t, 0xff11, duty}, strOp{t, 0xff12, 0xf0}, strOp{t, 0xff13, f & 0xff}, strOp{t, 0xff14, 0x80 | f>>8},
			strOp{t, 0xff16, duty}, strOp{t, 0xff17, 0xf0}, strOp{t, 0xff18, f & 0xff}, strOp{t, 0xff19, 0x80 | f>>8},
			strOp{t, 0xff1a, 0x80}, strOp{t, 0xff1c, 0x20}, strOp{t, 0xff1d, rng.Intn(256)}, strOp{t, 0xff1e, 0x80 | rng.Intn(8)},
			strOp{t, 0xff21, 0xf0}, strOp{t, 0xff22, rng.Intn(4) << 4}, strOp{t, 0xff23, 0x80})
		if rng.Intn(3) == 0 {
			ops = append(ops, strOp{t, 0xff24, []int{0x77, 0xf7, 0x7f, 0xff}[rng.Intn(4)]})
		}
		t += 2000 + rng.Intn(20000)
	}
	return ops
}

// streamRun drives the audio unit with sample channels attached (or half attached) and logs every pair.
func streamRun(id string, seed int64, cycles int, attached bool) *trace.Scenario {
	rng := rand.New(rand.NewSource(seed))
	solo := len(id) > 4 && id[:4] == "solo"
	sc := &trace.Scenario{ID: id, Reset: []any{trace.B2I(attached), 1, "samples", seed, cycles}}
	perr := machine.Try(func() {
		l := make(chan float32, 64)
		var r chan float32
		if attached {
			r = make(chan float32, 64)
		}
		a := audio.New(l, r)
		ops := streamSchedule(rng, cycles, -1)
		if solo {
			ops = soloSchedule(rng, cycles)
		}
		if len(id) > 4 && id[:4] == "loud" {
			ops = loudSchedule(rng, cycles)
		}
		k := 0
		for c := 1; c <= cycles; c++ {
			for k < len(ops) && ops[k].at < c {
				writeAudio(a, ops[k].addr, ops[k].v)
				sc.Ev = append(sc.Ev, []any{"w", ops[k].addr, ops[k].v, c - 1})
				k++
			}
			before := int(a.ReadNR52())
			a.EndMachineCycle()
			var ls, rs []float32
			for len(l) > 0 {
				ls = append(ls, <-l)
			}
			for r != nil && len(r) > 0 {
				rs = append(rs, <-r)
			}
			if len(ls) == 0 && len(rs) == 0 {
				continue
			}
			if len(ls) != 1 || len(rs) != 1 {
				sc.Ev = append(sc.Ev, []any{"x", c, len(ls), len(rs)})
				continue
			}
			lv, lb := scale(ls[0])
			rv, rb := scale(rs[0])
			sc.Ev = append(sc.Ev, []any{"s", c, before, int(a.ReadNR52()), int(a.ReadNR51()), lv, rv, lb | rb})
		}
		sc.Ev = append(sc.Ev, []any{"end", cycles})
	})
	if perr != "" {
		sc.Ev = append(sc.Ev, []any{"panic", perr})
	}
	return sc
}

func writeAudio(a *audio.Audio, addr, v int) {
	b := uint8(v)
	switch addr {
	case 0xff10:
		a.WriteNR10(b)
	case 0xff11:
		a.WriteNR11(b)
	case 0xff12:
		a.WriteNR12(b)
	case 0xff13:
		a.WriteNR13(b)
	case 0xff14:
		a.WriteNR14(b)
	case 0xff16:
		a.WriteNR21(b)
	case 0xff17:
		a.WriteNR22(b)
	case 0xff18:
		a.WriteNR23(b)
	case 0xff19:
		a.WriteNR24(b)
	case 0xff1a:
		a.WriteNR30(b)
	case 0xff1b:
		a.WriteNR31(b)
	case 0xff1c:
		a.WriteNR32(b)
	case 0xff1d:
		a.WriteNR33(b)
	case 0xff1e:
		a.WriteNR34(b)
	case 0xff20:
		a.WriteNR41(b)
	case 0xff21:
		a.WriteNR42(b)
	case 0xff22:
		a.WriteNR43(b)
	case 0xff23:
		a.WriteNR44(b)
	case 0xff24:
		a.WriteNR50(b)
	case 0xff25:
		a.WriteNR51(b)
	case 0xff26:
		a.WriteNR52(b)
	default:
		if addr >= 0xff30 && addr <= 0xff3f {
			a.WriteWaveRAM(uint16(addr), b)
		}
	}
}

// pairRun: two runs whose schedules differ only in the values written to the registers of channel ch,
// which is never routed to side `side` (0 left, 1 right); the samples of that side must be identical.
func pairRun(id string, seed int64, cycles int, ch, side int) *trace.Scenario {
	rng := rand.New(rand.NewSource(seed))
	sc := &trace.Scenario{ID: id, Reset: []any{1, 1, "pair", seed, cycles, ch, side}}
	perr := machine.Try(func() {
		base := streamSchedule(rng, cycles, ch)
		chRegs := map[int]bool{}
		for _, a := range [][]int{{0xff10, 0xff11, 0xff12, 0xff13, 0xff14}, {0xff16, 0xff17, 0xff18, 0xff19}, {0xff1a, 0xff1b, 0xff1c, 0xff1d, 0xff1e}, {0xff20, 0xff21, 0xff22, 0xff23}}[ch] {
			chRegs[a] = true
		}
		if ch == 2 {
			for i := 0; i < 16; i++ {
				chRegs[0xff30+i] = true
			}
		}
		bit := uint(ch)
		if side == 0 {
			bit += 4
		}
		var opsA, opsB []strOp
		for _, o := range base {
			if o.addr == 0xff26 {
				o.v = 0x80 // keep the power on: a power cycle resets the other channels' state identically anyway
			}
			if o.addr == 0xff25 {
				o.v &^= 1 << bit // the varied channel is never routed to the judged side
			}
			oa, ob := o, o
			if chRegs[o.addr] {
				ob.v = rng.Intn(256)
			}
			opsA = append(opsA, oa)
			opsB = append(opsB, ob)
		}
		run := func(ops []strOp) [][2]int {
			l := make(chan float32, 64)
			r := make(chan float32, 64)
			a := audio.New(l, r)
			var out [][2]int
			k := 0
			for c := 1; c <= cycles; c++ {
				for k < len(ops) && ops[k].at < c {
					writeAudio(a, ops[k].addr, ops[k].v)
					k++
				}
				a.EndMachineCycle()
				for len(l) > 0 && len(r) > 0 {
					lv, _ := scale(<-l)
					rv, _ := scale(<-r)
					v := lv
					if side == 1 {
						v = rv
					}
					out = append(out, [2]int{c, v})
				}
			}
			return out
		}
		ra, rb := run(opsA), run(opsB)
		n := len(ra)
		if len(rb) < n {
			n = len(rb)
		}
		for i := 0; i < n; i++ {
			sc.Ev = append(sc.Ev, []any{"p", ra[i][0], ra[i][1], rb[i][1]})
		}
		if len(ra) != len(rb) {
			sc.Ev = append(sc.Ev, []any{"x", 0, len(ra), len(rb)})
		}
	})
	if perr != "" {
		sc.Ev = append(sc.Ev, []any{"panic", perr})
	}
	return sc
}

func pairIndex(id string) int {
	n := 0
	fmt.Sscanf(id, "pair-%d", &n)
	return n
}

type streamJob struct {
	id       string
	kind     string
	seed     int64
	cycles   int
	attached bool
}

func streamJobs(c *Ctx) []streamJob {
	rng := c.Rand(2001)
	var jobs []streamJob
	n, cyc := 3, 1<<18
	if c.Thorough() {
		n, cyc = 8, 3<<20
	}
	for i := 0; i < n; i++ {
		jobs = append(jobs, streamJob{fmt.Sprintf("samples-%d", i), "samples", rng.Int63n(1 << 40), cyc, true})
	}
	// one run across the point where the 2^22-clock counter of the audio unit wraps (1,048,576 machine cycles)
	if !c.Thorough() {
		jobs = append(jobs, streamJob{"samples-long", "samples", rng.Int63n(1 << 40), 1<<20 + 70000, true})
	}
	jobs = append(jobs, streamJob{"samples-detached", "samples", rng.Int63n(1 << 40), cyc / 4, false})
	ns := 4
	if c.Thorough() {
		ns = 24
	}
	for i := 0; i < ns; i++ {
		jobs = append(jobs, streamJob{fmt.Sprintf("solo-%d", i), "samples", rng.Int63n(1 << 40), 1 << 17, true})
	}
	nl := 3
	if c.Thorough() {
		nl = 20
	}
	for i := 0; i < nl; i++ {
		jobs = append(jobs, streamJob{fmt.Sprintf("loud-%d", i), "samples", rng.Int63n(1 << 40), 1 << 17, true})
	}
	np, pc := 24, 1<<17
	if c.Thorough() {
		np, pc = 64, 1<<19
	}
	for i := 0; i < np; i++ {
		jobs = append(jobs, streamJob{fmt.Sprintf("pair-%d", i), "pair", rng.Int63n(1 << 40), pc, true})
	}
	return jobs
}

func apuGenStream(c *Ctx, w *trace.Writer) {
	if !c.Want("stream") {
		return
	}
	jobs := streamJobs(c)
	res := make([]*trace.Scenario, len(jobs))
	parallel(len(jobs), func(i int) {
		j := jobs[i]
		if j.kind == "pair" {
			// every channel x side in turn
			res[i] = pairRun(j.id, j.seed, j.cycles, pairIndex(j.id)%4, pairIndex(j.id)/4%2)
		} else if j.attached {
			res[i] = streamRun(j.id, j.seed, j.cycles, j.attached)
		} else {
			res[i] = streamRunGuard(j.id, j.seed, j.cycles)
		}
	})
	for _, s := range res {
		w.Put(s)
	}
}

// streamRunGuard runs the half-attached scenario under a watchdog: with an output missing the audio unit must not
// try to deliver (a send on the missing channel would block forever).
func streamRunGuard(id string, seed int64, cycles int) *trace.Scenario {
	done := make(chan *trace.Scenario, 1)
	go func() { done <- streamRun(id, seed, cycles, false) }()
	select {
	case sc := <-done:
		return sc
	case <-time.After(20 * time.Second):
		return &trace.Scenario{ID: id, Reset: []any{0, 1, "samples", seed, cycles}, Ev: [][]any{{"hang", "EndMachineCycle did not return within 20 s with one output channel missing"}}}
	}
}

func apuRerunStream(c *Ctx, w *trace.Writer, s *trace.Scenario) {
	r := s.Reset.([]any)
	if trace.Str(r[2]) == "pair" {
		w.Put(pairRun(s.ID, int64(trace.Int(r[3])), trace.Int(r[4]), trace.Int(r[5]), trace.Int(r[6])))
	} else {
		if trace.Int(r[0]) == 1 {
			w.Put(streamRun(s.ID, int64(trace.Int(r[3])), trace.Int(r[4]), true))
		} else {
			w.Put(streamRunGuard(s.ID, int64(trace.Int(r[3])), trace.Int(r[4])))
		}
	}
}
