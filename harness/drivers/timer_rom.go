package drivers

import (
	"bytes"
	"context"
	"fmt"
	"os"
	"path/filepath"

	"github.com/scottyw/tetromino/gameboy"
	"github.com/scottyw/tetromino/gameboy/memory"

	"verif/harness/machine"
	"verif/harness/trace"
)

// timerROM: a test ROM executed by the real frame loop (package gameboy); after every machine cycle the timer's DIV and
// TIMA are read and the writes the program made to FF04-FF07 in that cycle are logged in front of it, in the format of
// the unit-level timer scenarios. The interrupt request is derived from IF bit 2: 1 / 0 when the bit was clear before
// the cycle and the program did not write IF in it, -1 (not observable) otherwise.
func timerROM(id, rom string, frames, index int) *trace.Scenario {
	sc := &trace.Scenario{ID: id}
	perr := machine.Try(func() {
		gb := gameboy.New(gameboy.Config{RomFilename: rom, DisableVideoOutput: true, DisableAudioOutput: true, SerialWriter: &bytes.Buffer{}})
		t := gb.VerifTimer()
		sc.Reset = []int{int(t.VerifCounter()), int(t.ReadTIMA()), int(t.ReadTMA()), int(t.ReadTAC() & 7), -1, frames, index}
		var writes [][]any
		wroteIF := false
		memory.VerifBusObserver = func(mm *memory.Mapper, write bool, addr uint16, value uint8) {
			if !write || mm != gb.VerifMapper() {
				return
			}
			switch addr {
			case 0xff04:
				writes = append(writes, []any{"wd"})
			case 0xff05:
				writes = append(writes, []any{"wt", int(value)})
			case 0xff06:
				writes = append(writes, []any{"wm", int(value)})
			case 0xff07:
				writes = append(writes, []any{"wc", int(value)})
			case 0xff0f:
				wroteIF = true
			}
		}
		before := gb.VerifInterrupts().ReadIF()&4 != 0
		gameboy.VerifCycleObserver = func(g *gameboy.Gameboy, mtick int) {
			sc.Ev = append(sc.Ev, writes...)
			writes = writes[:0]
			after := g.VerifInterrupts().ReadIF()&4 != 0
			irq := -1
			switch {
			case wroteIF:
			case !before:
				irq = trace.B2I(after)
			case !after:
				irq = 0
			}
			sc.Ev = append(sc.Ev, []any{"t", int(g.VerifTimer().ReadDIV()), int(g.VerifTimer().ReadTIMA()), irq})
			before, wroteIF = after, false
		}
		defer func() { gameboy.VerifCycleObserver = nil; memory.VerifBusObserver = nil }()
		for f := 0; f < frames; f++ {
			gb.VerifRunFrame(context.Background())
		}
	})
	if perr != "" {
		sc.Ev = append(sc.Ev, []any{"panic", perr})
	}
	if sc.Reset == nil {
		sc.Reset = []int{0, 0, 0, 0, -1, frames, index}
	}
	return sc
}

func timerROMs(c *Ctx) []string {
	base := filepath.Join(repoDir(), "gameboy", "testdata")
	mts := filepath.Join(base, "mts-20221022-1430-8d742b9", "acceptance")
	roms := []string{
		filepath.Join(mts, "timer", "tima_reload.gb"), filepath.Join(mts, "timer", "tima_write_reloading.gb"), filepath.Join(mts, "timer", "tma_write_reloading.gb"),
		filepath.Join(mts, "timer", "rapid_toggle.gb"), filepath.Join(mts, "timer", "div_write.gb"), filepath.Join(mts, "timer", "tim01_div_trigger.gb"),
		filepath.Join(base, "blargg", "instr_timing", "instr_timing.gb"), filepath.Join(base, "blargg", "cpu_instrs", "individual", "02-interrupts.gb"),
	}
	// two generated busy programs (they vary IE, write DIV / TIMA / TMA / TAC all the time and poll IF)
	for i, seed := range []int64{8 * 771, 8*912 + 3, 8*655 + 7} { // the third one ends in STOP: the timer goes on
		p := filepath.Join(c.Out, fmt.Sprintf("tm-gen-%d.gb", i))
		os.WriteFile(p, genROM(seed), 0o644)
		roms = append(roms, p)
	}
	if c.Thorough() {
		for _, n := range []string{"tim00", "tim00_div_trigger", "tim01", "tim10", "tim10_div_trigger", "tim11", "tim11_div_trigger"} {
			roms = append(roms, filepath.Join(mts, "timer", n+".gb"))
		}
		roms = append(roms, filepath.Join(mts, "div_timing.gb"), filepath.Join(base, "blargg", "mem_timing", "individual", "01-read_timing.gb"), filepath.Join(base, "blargg", "halt_bug.gb"))
	}
	return roms
}

func timerGenROM(c *Ctx, w *trace.Writer) {
	frames := 4
	if c.Thorough() {
		frames = 30
	}
	roms := timerROMs(c)
	res := make([]*trace.Scenario, len(roms))
	// package gameboy's observers are process-wide: one ROM at a time
	for i, r := range roms {
		res[i] = timerROM(fmt.Sprintf("tm-rom-%d-%s", i, filepath.Base(r)), r, frames, i)
	}
	for _, s := range res {
		w.Put(s)
	}
}
