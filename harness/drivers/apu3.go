package drivers

import "verif/harness/trace"

func apuGenSamples(c *Ctx, w *trace.Writer)                      {}
func apuRerunSamples(c *Ctx, w *trace.Writer, s *trace.Scenario) {}
