package drivers

import (
	"fmt"
	"math/rand"

	"verif/harness/machine"
	"verif/harness/trace"
)

// ---- C21: generator step times -----------------------------------------------------------

type genJob struct {
	id     string
	kind   string // sq1 sq2 wave noise
	a, b   int    // frequency, or r and s
	narrow int
	cycles int
}

func genRun(j genJob) *trace.Scenario {
	m := machine.New(intROM, machine.Options{NoCPU: true})
	kind := j.kind
	// sq1x / sq2x: the channel is observed while the *other* square channel is triggered again and again;
	// noisefresh: channel 4 started on a machine whose NR43 was never written (and without a power cycle, which writes it)
	cross := 0
	switch kind {
	case "sq1x", "sq2x":
		cross = 23 + j.a%41
	}
	if kind == "sq1" || kind == "sq2" || kind == "sq1x" || kind == "sq2x" {
		kind = "sq"
	}
	if kind == "noisefresh" {
		kind = "noise"
	}
	sc := &trace.Scenario{ID: j.id}
	val := func() int {
		g := m.A.VerifGen()
		switch j.kind {
		case "sq1", "sq1x":
			return int(g.Duty1)
		case "sq2", "sq2x":
			return int(g.Duty2)
		case "wave":
			return int(g.WavePos)
		}
		return int(g.LFSR) & 0x7fff
	}
	perr := machine.Try(func() {
		if j.kind != "noisefresh" {
			m.M.Write(0xff26, 0x00)
			m.M.Write(0xff26, 0x80)
		}
		// let the hardware run a little so that the trigger does not fall on a special phase only
		for i := 0; i < 3+j.a%7; i++ {
			m.Hardware()
		}
		// the volume / envelope (output level for channel 3) is varied with the job, DAC always on: how loud a channel is,
		// silent included, has no bearing on when its generator steps
		env := uint8([]int{0xf0, 0x08, 0xf1, 0x0f, 0x10, 0xa3, 0x09, 0xf7}[(j.a+7*j.b+3*j.narrow)%8])
		lvl := uint8([]int{0x20, 0x00, 0x40, 0x60}[j.a%4])
		switch j.kind {
		case "noisefresh":
			m.M.Write(0xff21, env)
			m.M.Write(0xff23, 0x80)
		case "sq1", "sq1x":
			m.M.Write(0xff10, 0x00)
			m.M.Write(0xff12, env)
			m.M.Write(0xff13, uint8(j.a&0xff))
			m.M.Write(0xff14, uint8(0x80|j.a>>8))
		case "sq2", "sq2x":
			m.M.Write(0xff17, env)
			m.M.Write(0xff18, uint8(j.a&0xff))
			m.M.Write(0xff19, uint8(0x80|j.a>>8))
		case "wave":
			m.M.Write(0xff1a, 0x80)
			m.M.Write(0xff1c, lvl)
			m.M.Write(0xff1d, uint8(j.a&0xff))
			m.M.Write(0xff1e, uint8(0x80|j.a>>8))
		case "noise":
			m.M.Write(0xff21, env)
			m.M.Write(0xff22, uint8(j.b<<4|j.narrow<<3|j.a))
			m.M.Write(0xff23, 0x80)
		}
		v0 := val()
		sc.Reset = []any{kind, j.a, j.b, j.narrow, v0, j.cycles, j.kind}
		prev := v0
		for c := 1; c <= j.cycles; c++ {
			if cross > 0 && c%(cross*3) == 1 {
				// the observed channel's own duty / length register rewritten while it plays: the position goes on
				if j.kind == "sq1x" {
					m.M.Write(0xff11, uint8(c*64))
				} else {
					m.M.Write(0xff16, uint8(c*64))
				}
			}
			if cross > 0 && c%cross == 0 {
				if j.kind == "sq1x" {
					m.M.Write(0xff17, 0xf0)
					m.M.Write(0xff18, uint8(c))
					m.M.Write(0xff19, 0x80|uint8(c>>3)&7)
				} else {
					m.M.Write(0xff10, 0x00)
					m.M.Write(0xff12, 0xf0)
					m.M.Write(0xff13, uint8(c))
					m.M.Write(0xff14, 0x80|uint8(c>>3)&7)
				}
			}
			m.Hardware()
			if v := val(); v != prev {
				sc.Ev = append(sc.Ev, []any{c, v})
				prev = v
			}
		}
	})
	if perr != "" {
		if sc.Reset == nil {
			sc.Reset = []any{kind, j.a, j.b, j.narrow, 0, j.cycles, j.kind}
		}
		sc.Ev = append(sc.Ev, []any{"panic", perr})
	}
	if sc.Ev == nil {
		sc.Ev = [][]any{}
	}
	return sc
}

// waveModRun: channel 3 playing while the program rewrites the low frequency byte (NR33) without triggering again;
// every wave step is logged with the frequency in effect at the end of that machine cycle (even frequencies only).
func waveModRun(id string, seed int64) *trace.Scenario {
	rng := rand.New(rand.NewSource(seed))
	m := machine.New(intROM, machine.Options{NoCPU: true})
	hi := rng.Intn(8)
	f := hi<<8 | rng.Intn(128)<<1
	cycles := 30000
	sc := &trace.Scenario{ID: id}
	perr := machine.Try(func() {
		m.M.Write(0xff26, 0x00)
		m.M.Write(0xff26, 0x80)
		for i := 0; i < rng.Intn(300); i++ {
			m.Hardware()
		}
		m.M.Write(0xff1a, 0x80)
		m.M.Write(0xff1c, uint8([]int{0x20, 0x00, 0x40}[rng.Intn(3)]))
		m.M.Write(0xff1d, uint8(f&0xff))
		m.M.Write(0xff1e, uint8(0x80|f>>8))
		prev := int(m.A.VerifGen().WavePos)
		sc.Reset = []any{"wavemod", f, 0, 0, prev, cycles, "wavemod", seed}
		next := 200 + rng.Intn(3000)
		for c := 1; c <= cycles; c++ {
			if c == next {
				f = hi<<8 | rng.Intn(128)<<1
				m.M.Write(0xff1d, uint8(f&0xff))
				next = c + 100 + rng.Intn(4000)
			}
			m.Hardware()
			if p := int(m.A.VerifGen().WavePos); p != prev {
				prev = p
				sc.Ev = append(sc.Ev, []any{c, p, f})
			}
		}
	})
	if perr != "" {
		if sc.Reset == nil {
			sc.Reset = []any{"wavemod", f, 0, 0, 0, cycles, "wavemod", seed}
		}
		sc.Ev = append(sc.Ev, []any{"panic", perr})
	}
	if sc.Ev == nil {
		sc.Ev = [][]any{}
	}
	return sc
}

// sweepRun: channel 1 with the frequency sweep running; every duty step is logged with the frequency in effect right after it.
func sweepRun(id string, seed int64) *trace.Scenario {
	rng := rand.New(rand.NewSource(seed))
	m := machine.New(intROM, machine.Options{NoCPU: true})
	f := rng.Intn(2048)
	if rng.Intn(2) == 0 {
		f = 1200 + rng.Intn(840)
	}
	nr10 := (1+rng.Intn(7))<<4 | rng.Intn(2)<<3 | (1 + rng.Intn(7))
	cycles := 60000
	sc := &trace.Scenario{ID: id}
	perr := machine.Try(func() {
		m.M.Write(0xff26, 0x00)
		m.M.Write(0xff26, 0x80)
		for i := 0; i < rng.Intn(5000); i++ {
			m.Hardware()
		}
		m.M.Write(0xff10, uint8(nr10))
		m.M.Write(0xff12, 0xf0)
		m.M.Write(0xff13, uint8(f&0xff))
		m.M.Write(0xff14, uint8(0x80|f>>8))
		g := m.A.VerifGen()
		sc.Reset = []any{"sqsweep", f, nr10, 0, int(g.Duty1), cycles, "sq1sweep", seed}
		prev := int(g.Duty1)
		for c := 1; c <= cycles; c++ {
			m.Hardware()
			g = m.A.VerifGen()
			if int(g.Duty1) != prev {
				prev = int(g.Duty1)
				sc.Ev = append(sc.Ev, []any{c, prev, int(g.Freq1)})
			}
		}
	})
	if perr != "" {
		if sc.Reset == nil {
			sc.Reset = []any{"sqsweep", f, nr10, 0, 0, cycles, "sq1sweep", seed}
		}
		sc.Ev = append(sc.Ev, []any{"panic", perr})
	}
	if sc.Ev == nil {
		sc.Ev = [][]any{}
	}
	return sc
}

func genJobs(c *Ctx) []genJob {
	rng := c.Rand(2101)
	var jobs []genJob
	var freqs []int
	if c.Thorough() {
		for f := 0; f < 2048; f++ {
			freqs = append(freqs, f)
		}
	} else {
		freqs = []int{0, 1, 2, 1023, 1024, 2000, 2040, 2045, 2046, 2047}
		for len(freqs) < 48 {
			freqs = append(freqs, rng.Intn(2048))
		}
	}
	for _, k := range []string{"sq1", "sq2", "wave"} {
		for _, f := range freqs {
			p := 2048 - f // machine cycles per square step; half of it per wave step
			cyc := 6 * p
			if cyc < 80 {
				cyc = 80
			}
			if cyc > 13000 {
				cyc = 13000
			}
			jobs = append(jobs, genJob{id: fmt.Sprintf("gen-%s-%d", k, f), kind: k, a: f, cycles: cyc})
		}
	}
	for i, f := range freqs {
		if !c.Thorough() && i%3 != 0 {
			continue
		}
		p := 2048 - f
		cyc := 8 * p
		if cyc < 400 {
			cyc = 400
		}
		if cyc > 13000 {
			cyc = 13000
		}
		jobs = append(jobs, genJob{id: fmt.Sprintf("gen-sq1x-%d", f), kind: "sq1x", a: f, cycles: cyc}, genJob{id: fmt.Sprintf("gen-sq2x-%d", f), kind: "sq2x", a: f, cycles: cyc})
	}
	jobs = append(jobs, genJob{id: "gen-noise-fresh", kind: "noisefresh", cycles: 400})
	// long runs across five wraps of the audio unit's 2^22-clock counter (one per 1,048,576 machine cycles): generator
	// steps fall on the first clock of a machine cycle, so it takes four lost clocks before a step is seen a cycle late
	longc := 5<<20 + 40000
	jobs = append(jobs, genJob{id: "gen-sq2-long", kind: "sq2", a: 1024, cycles: longc},
		genJob{id: "gen-wave-long", kind: "wave", a: 1023, cycles: longc},
		genJob{id: "gen-noise-long", kind: "noise", a: 3, b: 5, narrow: 0, cycles: longc})
	// noise: every NR43 value with s <= 13
	for s := 0; s <= 13; s++ {
		for r := 0; r < 8; r++ {
			for narrow := 0; narrow < 2; narrow++ {
				if !c.Thorough() && s > 5 && (r+s+narrow)%5 != 0 {
					continue
				}
				d := 8
				if r > 0 {
					d = 16 * r
				}
				per := d << uint(s) / 4 // cycles per LFSR clock
				cyc := per*5 + 40
				if !c.Thorough() && cyc > 300000 {
					cyc = per*2 + per/2 + 40
				}
				jobs = append(jobs, genJob{id: fmt.Sprintf("gen-noise-r%d-s%d-n%d", r, s, narrow), kind: "noise", a: r, b: s, narrow: narrow, cycles: cyc})
			}
		}
	}
	// the LFSR output over more than two full periods (fastest clock)
	jobs = append(jobs, genJob{id: "gen-noise-full15", kind: "noise", a: 0, b: 0, narrow: 0, cycles: 2*32767*2 + 500})
	jobs = append(jobs, genJob{id: "gen-noise-full7", kind: "noise", a: 0, b: 0, narrow: 1, cycles: 2*127*2*3 + 100})
	jobs = append(jobs, genJob{id: "gen-noise-full15b", kind: "noise", a: 1, b: 0, narrow: 0, cycles: 4*32767 + 500})
	return jobs
}

func apuGenSamples(c *Ctx, w *trace.Writer) {
	if c.Want("gen") {
		jobs := genJobs(c)
		res := make([]*trace.Scenario, len(jobs))
		parallel(len(jobs), func(i int) { res[i] = genRun(jobs[i]) })
		for _, s := range res {
			w.Put(s)
		}
		// channel 1 with the sweep unit changing the frequency while it plays
		rng := c.Rand(2102)
		ns := 40
		if c.Thorough() {
			ns = 1200
		}
		for i := 0; i < ns; i++ {
			w.Put(sweepRun(fmt.Sprintf("gen-sweep-%d", i), rng.Int63n(1<<40)))
		}
		for i := 0; i < ns/2; i++ {
			w.Put(waveModRun(fmt.Sprintf("gen-wavemod-%d", i), rng.Int63n(1<<40)))
		}
	}
	apuGenStream(c, w)
	apuGenEnv(c, w)
	apuGenWaveAcc(c, w)
}

func apuRerunSamples(c *Ctx, w *trace.Writer, s *trace.Scenario) {
	r, ok := s.Reset.([]any)
	if ok && len(r) == 4 && trace.Str(r[0]) == "env" {
		w.Put(envRun(s.ID, trace.Int(r[1]), int64(trace.Int(r[2])), trace.Int(r[3])))
		return
	}
	if ok && len(r) == 4 && trace.Str(r[0]) == "waveacc" {
		w.Put(waveAccRun(s.ID, int64(trace.Int(r[1]))))
		return
	}
	if ok && len(r) == 8 && trace.Str(r[0]) == "wavemod" {
		w.Put(waveModRun(s.ID, int64(trace.Int(r[7]))))
		return
	}
	if ok && len(r) == 8 && trace.Str(r[0]) == "sqsweep" {
		w.Put(sweepRun(s.ID, int64(trace.Int(r[7]))))
		return
	}
	if ok && len(r) == 7 {
		w.Put(genRun(genJob{id: s.ID, kind: trace.Str(r[6]), a: trace.Int(r[1]), b: trace.Int(r[2]), narrow: trace.Int(r[3]), cycles: trace.Int(r[5])}))
		return
	}
	apuRerunStream(c, w, s)
}
