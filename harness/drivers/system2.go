package drivers

import "verif/harness/trace"

func systemGenOther(c *Ctx, w *trace.Writer, tmp string)                      {}
func systemRerunOther(c *Ctx, w *trace.Writer, s *trace.Scenario, tmp string) {}
