package drivers

import (
	"bytes"
	"context"
	"encoding/json"
	"fmt"
	"math/rand"
	"os"
	"os/exec"
	"path/filepath"
	"strconv"
	"strings"
	"time"

	"github.com/scottyw/tetromino/gameboy"
	"github.com/scottyw/tetromino/gameboy/controller"

	"verif/harness/machine"
	"verif/harness/trace"
)

// ---- C24: determinism --------------------------------------------------------------------

type detResult struct {
	Frames []int `json:"frames"`
	Final  int   `json:"final"`
}

// detRun runs a ROM through package gameboy (stand-in display and speakers attached) for a number of frames with a
// seeded button schedule and returns one digest per frame plus a final digest that includes the audio stream.
func detRun(rom string, seed int64, frames int) detResult {
	return detRunJitter(rom, seed, frames, false)
}

// detRunJitter: jitter = the host is slow now and then (a pause of a few milliseconds after a key event): emulated
// time does not pass meanwhile, so nothing may depend on it
func detRunJitter(rom string, seed int64, frames int, jitter bool) detResult {
	rng := rand.New(rand.NewSource(seed))
	serial := &bytes.Buffer{}
	gb := gameboy.New(gameboy.Config{RomFilename: rom, SerialWriter: serial})
	var res detResult
	held := map[controller.Button]bool{}
	buttons := []controller.Button{controller.Up, controller.Down, controller.Left, controller.Right, controller.A, controller.B, controller.Start, controller.Select}
	for f := 0; f < frames; f++ {
		if rng.Intn(3) == 0 {
			b := buttons[rng.Intn(len(buttons))]
			held[b] = !held[b]
			gb.VerifDisplay().VerifButton(b, held[b])
		}
		if f%5 >= 3 {
			// the same key pressed in one frame and released in the next (a tap)
			b := buttons[(f/5)%len(buttons)]
			held[b] = !held[b]
			gb.VerifDisplay().VerifButton(b, held[b])
			if jitter {
				time.Sleep(6 * time.Millisecond)
			}
		}
		gb.VerifRunFrame(context.Background())
		res.Frames = append(res.Frames, gbDigest(gb, serial)^digest([]byte{gb.VerifMapper().VerifPeek(0xff00)}))
	}
	spk := gb.VerifSpeakers()
	gb.Cleanup()
	res.Final = digest([]byte(fmt.Sprint(spk.HashL, spk.HashR, spk.Samples)), serial.Bytes(), gb.VerifMapper().DumpRAM())
	return res
}

func detScenario(id, rom string, seed int64, frames int) *trace.Scenario {
	sc := &trace.Scenario{ID: id, Reset: []any{"det", rom, seed, frames}}
	perr := machine.Try(func() {
		a := detRun(rom, seed, frames)
		// between the two runs the process hosts an emulator with a *different* configuration (debug colours on, other
		// outputs): "the same configuration gives the same result" must not depend on what else the process has run
		func() {
			other := gameboy.New(gameboy.Config{RomFilename: rom, DebugLCD: true, DisableAudioOutput: seed%2 == 0, SerialWriter: &bytes.Buffer{}})
			other.VerifRunFrame(context.Background())
			other.VerifRunFrame(context.Background())
			other.Cleanup()
		}()
		b := detRunJitter(rom, seed, frames, true)
		// third run in a separate process
		self, _ := os.Executable()
		cmd := exec.Command(self, "system", "detchild", "-in", rom, "-seed", strconv.FormatInt(seed, 10), "-shards", strconv.Itoa(frames))
		out, err := cmd.Output()
		if err != nil {
			panic(fmt.Sprintf("child process failed: %v", err))
		}
		var c detResult
		line := strings.TrimSpace(string(out))
		if i := strings.LastIndex(line, "DET "); i >= 0 {
			if err := json.Unmarshal([]byte(line[i+4:]), &c); err != nil {
				panic(err)
			}
		} else {
			panic("child process printed no result: " + line)
		}
		for f := 0; f < frames; f++ {
			cv := -1
			if f < len(c.Frames) {
				cv = c.Frames[f]
			}
			sc.Ev = append(sc.Ev, []any{"d3", f, a.Frames[f], b.Frames[f], cv})
		}
		sc.Ev = append(sc.Ev, []any{"d3", frames, a.Final, b.Final, c.Final})
	})
	if perr != "" {
		sc.Ev = append(sc.Ev, []any{"panic", perr})
	}
	return sc
}

// detRewrite: a ROM file is run, then *rewritten* with a different program under the same name and run again; the
// second result must be that of the second program (compared with the same image under a fresh name, in this process
// and in a separate one): the configuration names a file, and what counts is what the file holds when it is loaded.
func detRewrite(id string, tmp string, k int, frames int) *trace.Scenario {
	p := filepath.Join(tmp, fmt.Sprintf("rw-%d.gb", k))
	fresh := filepath.Join(tmp, fmt.Sprintf("rw-%d-fresh.gb", k))
	sc := &trace.Scenario{ID: id, Reset: []any{"detrw", p, k, frames}}
	perr := machine.Try(func() {
		seed := int64(7700 + k)
		os.WriteFile(p, genROM(int64(8*(9000+k))), 0o644)
		detRun(p, seed, 3)
		img := genROM(int64(8*(9500+k) + 2))
		os.WriteFile(p, img, 0o644)
		os.WriteFile(fresh, img, 0o644)
		a := detRun(fresh, seed, frames)
		b := detRun(p, seed, frames)
		self, _ := os.Executable()
		out, err := exec.Command(self, "system", "detchild", "-in", fresh, "-seed", strconv.FormatInt(seed, 10), "-shards", strconv.Itoa(frames)).Output()
		if err != nil {
			panic(fmt.Sprintf("child process failed: %v", err))
		}
		var c detResult
		line := strings.TrimSpace(string(out))
		if i := strings.LastIndex(line, "DET "); i >= 0 {
			json.Unmarshal([]byte(line[i+4:]), &c)
		}
		for f := 0; f < frames; f++ {
			cv := -1
			if f < len(c.Frames) {
				cv = c.Frames[f]
			}
			sc.Ev = append(sc.Ev, []any{"d3", f, a.Frames[f], b.Frames[f], cv})
		}
		sc.Ev = append(sc.Ev, []any{"d3", frames, a.Final, b.Final, c.Final})
	})
	if perr != "" {
		sc.Ev = append(sc.Ev, []any{"panic", perr})
	}
	return sc
}

func systemGenOther(c *Ctx, w *trace.Writer, tmp string) {
	if c.Mode == "detchild" {
		return
	}
	if c.Want("det") {
		n, frames := 8, 40
		if c.Thorough() {
			n, frames = 24, 120
		}
		rng := c.Rand(2401)
		roms := romList(c, tmp, n)
		// all available test ROMs in thorough
		if c.Thorough() {
			filepath.Walk(filepath.Join(repoDir(), "gameboy", "testdata"), func(p string, info os.FileInfo, err error) error {
				if err == nil && !info.IsDir() && strings.HasSuffix(p, ".gb") && info.Size() > 0x150 {
					// only images the emulator accepts: a file whose header contradicts its size (bootrom_dumper.gb)
					// is refused by the constructor, which is C11's subject, not a question of determinism
					img, rerr := os.ReadFile(p)
					if rerr == nil && machine.Try(func() { machine.New(img, machine.Options{NoCPU: true}) }) == "" {
						roms = append(roms, p)
					}
				}
				return nil
			})
		}
		for i, rom := range roms {
			fr := frames
			if i >= n {
				fr = 30
			}
			w.Put(detScenario(fmt.Sprintf("system-det-%d", i), rom, rng.Int63n(1<<40), fr))
		}
		for k := 0; k < 2; k++ {
			w.Put(detRewrite(fmt.Sprintf("system-detrw-%d", k), tmp, k, 12))
		}
	}
	systemGenMulti(c, w, tmp)
}

func systemRerunOther(c *Ctx, w *trace.Writer, s *trace.Scenario, tmp string) {
	r := s.Reset.([]any)
	rom := trace.Str(r[1])
	if strings.HasPrefix(filepath.Base(rom), "gen-") {
		rom = filepath.Join(tmp, filepath.Base(rom))
	}
	switch trace.Str(r[0]) {
	case "detrw":
		w.Put(detRewrite(s.ID, tmp, trace.Int(r[2]), trace.Int(r[3])))
	case "det":
		w.Put(detScenario(s.ID, rom, int64(trace.Int(r[2])), trace.Int(r[3])))
	default:
		systemRerunMulti(c, w, s, tmp)
	}
}

// systemDetChild: `drv system detchild -in ROM -seed S -shards FRAMES`
func systemDetChild(c *Ctx) {
	res := detRun(c.In, c.Seed, c.Shards)
	b, _ := json.Marshal(res)
	fmt.Println("DET " + string(b))
}
