package drivers

import (
	"fmt"
	"math/rand"

	"github.com/scottyw/tetromino/gameboy/timer"

	"verif/harness/trace"
)

func init() { Registry["timer"] = timerMain }

// A timer scenario: reset = [counter, tima, tma, tac(=0), wantCounter, wantTima, wantTma],
// events t / wd / wt v / wm v / wc v.

type tmOp struct {
	k string
	v int
}

// timerSetup brings a fresh timer to the wanted start state through its
// public API only: TAC disabled, DIV write, TIMA/TMA writes at a harmless
// counter value, then ticks until the counter has the wanted value.
func timerSetup(wantC, wantTima, wantTma int) (*timer.Timer, []int) {
	t := timer.New()
	t.WriteTAC(0)
	t.WriteDIV(0)
	t.EndMachineCycle()
	t.WriteTMA(uint8(wantTma))
	t.WriteTIMA(uint8(wantTima))
	for i := 0; i < 20000 && int(t.VerifCounter()) != wantC; i++ {
		t.EndMachineCycle()
	}
	reset := []int{int(t.VerifCounter()), int(t.ReadTIMA()), int(t.ReadTMA()), int(t.ReadTAC() & 7), wantC, wantTima, wantTma}
	return t, reset
}

func timerExec(id string, wantC, wantTima, wantTma int, ops []tmOp) *trace.Scenario {
	t, reset := timerSetup(wantC, wantTima, wantTma)
	sc := &trace.Scenario{ID: id, Reset: reset}
	for _, o := range ops {
		switch o.k {
		case "t":
			irq := t.EndMachineCycle()
			sc.Ev = append(sc.Ev, []any{"t", int(t.ReadDIV()), int(t.ReadTIMA()), trace.B2I(irq)})
		case "wd":
			t.WriteDIV(uint8(o.v))
			sc.Ev = append(sc.Ev, []any{"wd"})
		case "wt":
			t.WriteTIMA(uint8(o.v))
			sc.Ev = append(sc.Ev, []any{"wt", o.v})
		case "wm":
			t.WriteTMA(uint8(o.v))
			sc.Ev = append(sc.Ev, []any{"wm", o.v})
		case "wc":
			t.WriteTAC(uint8(o.v))
			sc.Ev = append(sc.Ev, []any{"wc", o.v})
		}
	}
	return sc
}

func selBit(tac int) int {
	return []int{512, 8, 32, 128}[tac&3]
}

var tmVals = []int{0x00, 0xfe, 0xff}

func tmWrites() []tmOp {
	ws := []tmOp{{"wd", 0}}
	for _, v := range tmVals {
		ws = append(ws, tmOp{"wt", v}, tmOp{"wm", v})
	}
	for t := 0; t < 8; t++ {
		ws = append(ws, tmOp{"wc", t})
	}
	return ws
}

// tmTree enumerates all sequences of the given depth with at most one write
// per cycle; every leaf is emitted with probability keep.
func tmTree(depth int, keep float64, rng *rand.Rand, emit func(ops []tmOp)) {
	ws := tmWrites()
	var rec func(prefix []tmOp, d int, lastWrite bool)
	rec = func(prefix []tmOp, d int, lastWrite bool) {
		if d == depth {
			if keep >= 1 || rng.Float64() < keep {
				emit(append([]tmOp{}, prefix...))
			}
			return
		}
		rec(append(prefix, tmOp{"t", 0}), d+1, false)
		if !lastWrite {
			for _, w := range ws {
				rec(append(prefix, w), d+1, true)
			}
		}
	}
	rec(nil, 0, false)
}

func timerMain(c *Ctx) {
	switch c.Mode {
	case "gen":
		timerGen(c)
	case "rerun":
		timerRerun(c)
	default:
		die("timer: unknown mode %s", c.Mode)
	}
}

func timerGen(c *Ctx) {
	w := trace.NewWriter(c.Out, "timer", 80000)
	rng := c.Rand(12)
	n := 0
	put := func(fam string, wantC, tima, tma, tac int, ops []tmOp) {
		// the first two events enable TAC and end that cycle
		all := append([]tmOp{{"wc", tac}, {"t", 0}}, ops...)
		// TAC has three bits: whatever is written to the other five must not matter (a program stops the timer with
		// ReadTAC() &^ 4, which is F9 or so)
		hi := rand.New(rand.NewSource(int64(n)))
		for i := range all {
			if all[i].k == "wc" && hi.Intn(2) == 0 {
				all[i].v |= []int{0xf8, 0x08, 0x80, 0x40, 0x10, 0xa8}[hi.Intn(6)]
			}
		}
		w.Put(timerExec(fmt.Sprintf("tm-%s-%d", fam, n), (wantC+65536-4)%65536, tima, tma, all))
		n++
	}
	// family "wide": every counter phase around each edge bit and the 16-bit wrap
	if c.Want("wide") {
		depth, keep := 4, 0.04
		if c.Thorough() {
			depth, keep = 5, 0.05
		}
		for tac := 0; tac < 8; tac++ {
			sb := selBit(tac)
			var starts []int
			for d := -3; d <= 3; d++ {
				starts = append(starts, (sb+4*d+65536)%65536, (2*sb+4*d+65536)%65536, (4*d+65536)%65536)
			}
			seen := map[int]bool{}
			for _, sc := range starts {
				if seen[sc] {
					continue
				}
				seen[sc] = true
				for _, tima := range []int{0xfe, 0xff, 0x00} {
					tma := []int{0x00, 0xa5}[rng.Intn(2)]
					tmTree(depth, keep, rng, func(ops []tmOp) { put("wide", sc, tima, tma, tac, ops) })
				}
			}
		}
	}
	// family "deep": one or two ticks before an overflow, longer sequences
	if c.Want("deep") {
		depth, keep := 6, 0.02
		if c.Thorough() {
			depth, keep = 7, 0.03
		}
		for tac := 4; tac < 8; tac++ {
			sb := selBit(tac)
			for _, sc := range []int{2*sb - 8, 2*sb - 4, 65536 - 8, 65536 - 4} {
				tmTree(depth, keep, rng, func(ops []tmOp) { put("deep", sc, 0xff, 0xa5, tac, ops) })
			}
		}
	}
	// family "rand": long random schedules from random phases
	if c.Want("rand") {
		count, length := 150, 300
		if c.Thorough() {
			count, length = 2000, 400
		}
		ws := tmWrites()
		for i := 0; i < count; i++ {
			tac := rng.Intn(8)
			if rng.Intn(4) > 0 {
				tac |= 4
			}
			var ops []tmOp
			last := false
			for len(ops) < length {
				if !last && rng.Intn(5) == 0 {
					o := ws[rng.Intn(len(ws))]
					if (o.k == "wt" || o.k == "wm") && rng.Intn(2) == 0 {
						o.v = rng.Intn(256)
					}
					// fast TAC settings make overflows frequent; bias TIMA writes high
					if o.k == "wt" && rng.Intn(2) == 0 {
						o.v = 0xf8 + rng.Intn(8)
					}
					ops = append(ops, o)
					last = true
				} else {
					ops = append(ops, tmOp{"t", 0})
					last = false
				}
			}
			put("rand", rng.Intn(16384)*4, 0xf0+rng.Intn(16), rng.Intn(256), tac, ops)
		}
	}
	if c.Want("rom") {
		timerGenROM(c, w)
	}
	w.Close()
}

func timerRerun(c *Ctx) {
	scs, err := trace.ReadAll(c.In)
	if err != nil {
		die("%v", err)
	}
	w := trace.NewWriter(c.Out, "timer-rerun", 1<<30)
	for _, s := range scs {
		r := trace.Ints(s.Reset)
		if len(r) > 6 && r[4] == -1 {
			w.Put(timerROM(s.ID, timerROMs(c)[r[6]], r[5], r[6])) // a ROM trace: run the ROM again
			continue
		}
		var ops []tmOp
		for _, e := range s.Ev {
			o := tmOp{k: trace.Str(e[0])}
			if o.k != "t" && o.k != "wd" {
				o.v = trace.Int(e[1])
			}
			ops = append(ops, o)
		}
		w.Put(timerExec(s.ID, r[4], r[5], r[6], ops))
	}
	w.Close()
}
