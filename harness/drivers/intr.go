package drivers

import (
	"fmt"
	"math/rand"
	"os"
	"path/filepath"
	"strings"

	"github.com/scottyw/tetromino/gameboy/controller"
	"github.com/scottyw/tetromino/gameboy/memory"

	"verif/harness/machine"
	"verif/harness/trace"
)

func init() { Registry["int"] = intMain }

// An interrupt-control scenario: a program in WRAM, an initial (IME, IE, IF),
// requests raised by the harness before given global machine cycles.
type intScript struct {
	ID     string
	Regs   []int // initial registers (PC = start of the program)
	Code   []int // bytes placed at PC
	IME    int
	IE, IF int
	Raises [][2]int // (global cycle t, bit): raised before cycle t
	Keys   []int    // global cycles before which a key event (ButtonAction + CPU.OnInput, as the display does) happens
	Units  int      // number of units to record
	StopPC int      // if non-zero: stop after the first non-idle unit that starts at this PC
}

// all NOPs, with RETI at the five interrupt vectors: a dispatched interrupt returns and the program goes on
var intROM = func() []byte {
	rom := machine.BlankROM(0)
	for _, v := range []int{0x40, 0x48, 0x50, 0x58, 0x60} {
		rom[v] = 0xd9
	}
	return rom
}()

type intRig struct {
	m      *machine.Machine
	bus    [][]int
	cycle  int
	on     bool
	broken bool // the CPU panicked: build a new rig
	decoy  *machine.Machine
}

func newIntRig() *intRig { return newIntRigOpt(false) }

// newIntRigOpt: debug = the emulator's CPU trace (Config.DebugCPU) on; callers silence stdout meanwhile
func newIntRigOpt(debug bool) *intRig {
	r := &intRig{}
	r.m = machine.New(intROM, machine.Options{DebugCPU: debug})
	r.m.QuietLCD()
	// a second emulator created afterwards and never stepped (as in the instruction rig): dispatch sequences, tables or
	// handlers shared between CPU instances show in the older one
	r.decoy = machine.New(intROM, machine.Options{})
	memory.VerifBusObserver = func(mm *memory.Mapper, write bool, addr uint16, value uint8) {
		if !r.on || mm != r.m.M {
			return
		}
		if write {
			r.bus = append(r.bus, []int{r.cycle, 1, int(addr), int(value)})
		} else {
			r.bus = append(r.bus, []int{r.cycle, 0, int(addr), int(mm.VerifPeek(addr))})
		}
	}
	return r
}

func raiseBit(m *machine.Machine, bit int) {
	switch bit {
	case 0:
		m.I.RequestVblank()
	case 1:
		m.I.RequestStat()
	case 2:
		m.I.RequestTimer()
	case 3:
		m.I.RequestSerial()
	case 4:
		m.I.RequestJoypad()
	}
}

const (
	intSled  = 0xc0f0 // NOP sled; also where the prefilled stack returns to
	intStack = 0xdf80
)

func (r *intRig) run(s *intScript) *trace.Scenario {
	m := r.m
	r.on = false
	// memory: NOP sled everywhere in the code area, return addresses on the stack
	for a := 0xc000; a < 0xc400; a++ {
		m.M.Write(uint16(a), 0x00)
	}
	for a := 0xdf00; a < 0xe000; a += 2 {
		m.M.Write(uint16(a), uint8(intSled&0xff))
		m.M.Write(uint16(a+1), uint8(intSled>>8))
	}
	for i, b := range s.Code {
		m.M.Write(uint16(s.Regs[9]+i), uint8(b))
	}
	if s.IME == 1 {
		m.I.Enable()
	} else {
		m.I.Disable()
	}
	m.I.WriteIE(uint8(s.IE))
	m.I.WriteIF(uint8(s.IF))
	m.CPU.VerifSet(regsFrom(s.Regs))
	sc := &trace.Scenario{ID: s.ID, Reset: []int{trace.B2I(m.I.Enabled()), int(m.I.ReadIE()), int(m.I.ReadIF() & 0x1f)}}
	t := 0
	raisesAt := func(t int) []int {
		var bits []int
		for _, rz := range s.Raises {
			if rz[0] == t {
				bits = append(bits, rz[1])
			}
		}
		return bits
	}
	keyAt := func(t int) bool {
		for _, k := range s.Keys {
			if k == t {
				return true
			}
		}
		return false
	}
	pressed := false
	doKey := func() {
		// what the display's key callback does
		pressed = !pressed
		m.C.ButtonAction(controller.A, pressed)
		m.CPU.OnInput()
	}
	for u := 0; u < s.Units; u++ {
		pre := regsOf(m.CPU.VerifGet())
		wasHalted := m.CPU.VerifGet().Halted
		ob := []int{int(m.M.VerifPeek(uint16(pre[9]))), int(m.M.VerifPeek(uint16(pre[9] + 1))), int(m.M.VerifPeek(uint16(pre[9] + 2)))}
		raises := [][]int{}
		keys := []int{}
		for _, b := range raisesAt(t) {
			raiseBit(m, b)
			raises = append(raises, []int{0, b})
		}
		if keyAt(t) {
			doKey()
			keys = append(keys, 0)
		}
		r.bus = nil
		n := 0
		r.on = true
		perr := machine.Try(func() {
			for {
				r.cycle = n + 1
				m.CPU.ExecuteMachineCycle()
				n++
				t++
				if m.CPU.VerifAtBoundary() || n >= 12 {
					break
				}
				for _, b := range raisesAt(t) {
					raiseBit(m, b)
					raises = append(raises, []int{n, b})
				}
				if keyAt(t) {
					doKey()
					keys = append(keys, n)
				}
			}
		})
		r.on = false
		if perr != "" {
			// the emulator panicked: a unit of 99 cycles, which no action of the specification accepts
			sc.Ev = append(sc.Ev, []any{pre, ob, [][]int{}, pre, 99, int(m.I.ReadIE()), int(m.I.ReadIF() & 0x1f), raises, keys, 1, "panic: " + perr})
			r.broken = true
			return sc
		}
		bus := r.bus
		if bus == nil {
			bus = [][]int{}
		}
		post := regsOf(m.CPU.VerifGet())
		sc.Ev = append(sc.Ev, []any{pre, ob, bus, post, n, int(m.I.ReadIE()), int(m.I.ReadIF() & 0x1f), raises, keys})
		if s.StopPC != 0 && pre[9] == s.StopPC && !wasHalted {
			break
		}
		// stop when control left the areas the scenario prepared
		pc := post[9]
		if !((pc >= 0xc000 && pc < 0xc3f0) || pc < 0x0100) {
			break
		}
	}
	return sc
}

func intRegs(rng *rand.Rand) []int {
	s := regionRegs(rng, 0xd000, 0xdd00)
	s[8] = intStack
	s[9] = 0xc000
	return s
}

func intMain(c *Ctx) {
	switch c.Mode {
	case "gen":
		intGen(c)
	case "rerun":
		intRerun(c)
	default:
		die("int: unknown mode %s", c.Mode)
	}
}

// alphabet of the program families
var intAlpha = [][]int{
	{0xfb},       // EI
	{0xf3},       // DI
	{0xd9},       // RETI
	{0x00},       // NOP
	{0x04},       // INC B
	{0x3e, 0x05}, // LD A,05
	{0x3e, 0x00}, // LD A,00
	{0x76},       // HALT
	{0xe0, 0x0f}, // LDH (0F),A : write IF
	{0xe0, 0xff}, // LDH (FF),A : write IE
}

func intGen(c *Ctx) {
	var rig *intRig
	if c.Fam != "rom" {
		rig = newIntRig()
	}
	w := trace.NewWriter(c.Out, "int", 60000)
	thorough := c.Thorough()
	n := 0
	emit := func(fam string, s *intScript) {
		s.ID = fmt.Sprintf("int-%s-%d", fam, n)
		n++
		w.Put(rig.run(s))
		if rig.broken {
			rig = newIntRig()
		}
	}
	if c.Want("boundary") {
		// all IME x IE x IF at a boundary (exhaustive)
		rng := c.Rand(401)
		for ime := 0; ime < 2; ime++ {
			for ie := 0; ie < 32; ie++ {
				for ifl := 0; ifl < 32; ifl++ {
					// the three unused high bits of IE are plain storage and must not matter
					emit("boundary", &intScript{Regs: intRegs(rng), Code: []int{0x04, 0x04, 0x0c}, IME: ime, IE: ie | []int{0, 0, 0xe0, 0x20, 0x80}[rng.Intn(5)], IF: ifl, Units: 3})
				}
			}
		}
	}
	if c.Want("boundary") {
		// the stack pointer placed so that the two pushes of a dispatch land on IE (FFFF) or IF (FF0F): the interrupt
		// serviced is still the one that was highest at the boundary
		rng := c.Rand(408)
		for _, sp := range []int{0x0000, 0x0001, 0xff10, 0xff11, 0xff0f} {
			for _, pc := range []int{0xc010, 0xc2f1, 0xc108, 0xc31f} {
				for _, p := range [][2]int{{0x01, 0x01}, {0x08, 0x0a}, {0x1f, 0x1f}, {0x04, 0x05}, {0x10, 0x18}, {0x1f, 0x10}, {0x02, 0x1e}} {
					r := intRegs(rng)
					r[8], r[9] = sp, pc
					emit("boundary", &intScript{Regs: r, Code: []int{0x04, 0x04, 0x0c}, IME: 1, IE: p[0], IF: p[1], Units: 1})
				}
			}
		}
	}
	for _, fam := range []string{"prog", "hprog"} {
		if !c.Want(fam) || (c.Fam == "" && false) {
			continue
		}
		// every program up to a length over the alphabet, a request raised before every machine cycle offset.
		// prog: programs without HALT (C04); hprog: programs containing HALT (C05)
		rng := c.Rand(402)
		if fam == "hprog" {
			rng = c.Rand(406)
		}
		maxLen, keep := 3, 0.5
		if thorough {
			maxLen, keep = 4, 0.35
		}
		inits := [][3]int{{0, 0x05, 0x00}, {1, 0x05, 0x00}, {0, 0x05, 0x04}, {1, 0x1f, 0x00}, {0, 0x00, 0x00}}
		var rec func(prog [][]int)
		rec = func(prog [][]int) {
			if len(prog) > 0 {
				var code []int
				cyc := 0
				adjacentEiHalt := false
				for i, ins := range prog {
					code = append(code, ins...)
					cyc += len(ins)
					if ins[0] == 0xe0 {
						cyc++
					}
					if i > 0 && ins[0] == 0x76 && prog[i-1][0] == 0xfb {
						adjacentEiHalt = true
					}
				}
				hasHalt := false
				for _, ins := range prog {
					if ins[0] == 0x76 {
						hasHalt = true
					}
				}
				if hasHalt == (fam == "hprog") && (!adjacentEiHalt || rng.Intn(10) == 0) {
					for _, in := range inits {
						for off := -1; off <= cyc+3; off++ {
							if keep < 1 && rng.Float64() > keep {
								continue
							}
							s := &intScript{Regs: intRegs(rng), Code: code, IME: in[0], IE: in[1], IF: in[2], Units: len(prog) + 4}
							if off >= 0 {
								bit := []int{0, 2}[rng.Intn(2)]
								s.Raises = [][2]int{{off, bit}}
							}
							// A holds a value that makes LDH writes meaningful
							s.Regs[0] = []int{0x00, 0x01, 0x04, 0x05, 0x1f, 0xe4, 0xff, 0xe0}[rng.Intn(8)]
							emit(fam, s)
						}
					}
				}
			}
			if len(prog) == maxLen {
				return
			}
			for _, ins := range intAlpha {
				rec(append(append([][]int{}, prog...), ins))
			}
		}
		rec(nil)
	}
	if c.Want("prio") {
		// two requests of different priority raised at different offsets around a dispatch
		rng := c.Rand(403)
		for b1 := 0; b1 < 5; b1++ {
			for b2 := 0; b2 < 5; b2++ {
				if b1 == b2 {
					continue
				}
				for o1 := 0; o1 < 4; o1++ {
					for o2 := o1; o2 < o1+8; o2++ {
						for _, halt := range []bool{false, true} {
							code := []int{0x04, 0x04, 0x04, 0x04}
							if halt {
								code = []int{0x76, 0x04, 0x04, 0x04}
							}
							emit("prio", &intScript{Regs: intRegs(rng), Code: code, IME: 1, IE: 0x1f, IF: 0, Raises: [][2]int{{o1, b1}, {o2, b2}}, Units: 6})
						}
					}
				}
			}
		}
	}
	if c.Want("halt") {
		// HALT x IME x all IE x IF patterns, then a request after k idle cycles
		rng := c.Rand(404)
		for ime := 0; ime < 2; ime++ {
			for ie := 0; ie < 32; ie++ {
				for ifl := 0; ifl < 32; ifl++ {
					s := &intScript{Regs: intRegs(rng), Code: []int{0x76, 0x04, 0x0c, 0x14}, IME: ime, IE: ie | []int{0, 0, 0xe0, 0x40, 0xa0}[rng.Intn(5)], IF: ifl, Units: 14}
					k := rng.Intn(9)
					bit := rng.Intn(5)
					s.Raises = [][2]int{{1 + k + rng.Intn(3), bit}}
					if rng.Intn(3) == 0 {
						// a key event while idling: on its own it is not an interrupt request
						s.Keys = []int{1 + rng.Intn(k+1)}
					}
					emit("halt", s)
				}
			}
		}
	}
	if c.Want("hdbg") {
		// HALT scenarios (all three pending situations, every source, a few following opcodes) with the emulator's CPU
		// trace switched on: printing must not move the CPU
		rng := c.Rand(410)
		stdout := os.Stdout
		if null, err := os.OpenFile(os.DevNull, os.O_WRONLY, 0); err == nil {
			os.Stdout = null
			drig := newIntRigOpt(true)
			for ime := 0; ime < 2; ime++ {
				for bit := 0; bit < 5; bit++ {
					for _, pend := range []int{0, 1} {
						for _, next := range [][]int{{0x04, 0x0c}, {0x3e, 0x14, 0x04}, {0x00, 0x04}, {0x34, 0x04}} {
							s := &intScript{Regs: intRegs(rng), Code: append([]int{0x76}, next...), IME: ime, IE: 1 << uint(bit), IF: pend << uint(bit), Units: 8}
							if pend == 0 {
								s.Raises = [][2]int{{2 + rng.Intn(5), bit}}
							}
							s.ID = fmt.Sprintf("int-hdbg-%d", n)
							n++
							w.Put(drig.run(s))
							if drig.broken {
								drig = newIntRigOpt(true)
							}
						}
					}
				}
			}
			os.Stdout = stdout
			null.Close()
			rig = newIntRig() // the bus observer belongs to the last rig built
		}
	}
	if c.Want("halt2") {
		// two HALTs in one program: the first with the master enable set while a request X is raised but not enabled
		// (woken by Y, dispatched, RETI), the second with the enable clear after IF was cleared and X enabled, woken by X -
		// whatever the first HALT remembered must not keep the second from waking
		rng := c.Rand(409)
		for x := 0; x < 5; x++ {
			for y := 0; y < 5; y++ {
				if x == y {
					continue
				}
				for idle := 0; idle < 4; idle++ {
					code := []int{0x3e, 1 << uint(x), 0xe0, 0x0f, 0x3e, 1 << uint(y), 0xe0, 0xff, 0xfb, 0x00, 0x76, 0x00,
						0xf3, 0xaf, 0xe0, 0x0f, 0x3e, 1 << uint(x), 0xe0, 0xff, 0x76, 0x04, 0x0c, 0x14}
					// cycles: LD 2, LDH 3, LD 2, LDH 3, EI 1, NOP 1, HALT 1 = 13; idle; dispatch 6 + RETI 4; NOP 1; DI 1, XOR 1, LDH 3, LD 2, LDH 3, HALT 1
					t1 := 13 + 1 + idle
					t2 := t1 + 6 + 4 + 1 + 11 + 2 + idle
					s := &intScript{Regs: intRegs(rng), Code: code, IME: 0, IE: 0, IF: 0, Units: 24, Raises: [][2]int{{t1, y}, {t2, x}}}
					emit("halt2", s)
				}
			}
		}
	}
	if c.Want("haltop") {
		// HALT followed by every defined opcode x IME x {nothing pending, pending before HALT (halt bug), request after k idle cycles}
		rng := c.Rand(405)
		reps := 1
		if thorough {
			reps = 4
		}
		for rep := 0; rep < reps; rep++ {
			for op := 0; op < 256; op++ {
				if undefinedOps[op] || op == 0x10 {
					continue
				}
				for ime := 0; ime < 2; ime++ {
					for mode := 0; mode < 3; mode++ {
						var regs, code []int
						for try := 0; ; try++ {
							regs = intRegs(rng)
							b1, b2 := rng.Intn(256), 0xd0+rng.Intn(12)
							code = []int{0x76, op, b1, b2, 0x00, 0x00}
							// precondition as for C01: no candidate address in the code or in FE00-FEFF; also for the halt-bug reading of the bytes
							chk := append([]int{}, regs...)
							chk[9] = 0xc001
							if okState(chk, []int{op, b1, b2}) && okState(chk, []int{op, op, b1}) && b1 < 0xf0 {
								break
							}
							if try > 1000 {
								panic("haltop precondition")
							}
						}
						s := &intScript{Regs: regs, Code: code, IME: ime, IE: 0x04, IF: 0, Units: 5, StopPC: 0xc001}
						switch mode {
						case 1:
							s.IF = 0x04
						case 2:
							k := rng.Intn(9)
							s.Raises = [][2]int{{1 + k, 2}}
							s.Units = 5 + k
						}
						emit("haltop", s)
					}
				}
			}
		}
	}
	if c.Want("rom") {
		// windows of the repository's own test ROMs (the executions of the existing ROM tests, with the whole specification as the oracle)
		rng := c.Rand(407)
		base := filepath.Join(repoDir(), "gameboy", "testdata")
		roms := []string{"blargg/cpu_instrs/individual/02-interrupts.gb", "blargg/halt_bug.gb", "blargg/instr_timing/instr_timing.gb",
			"blargg/cpu_instrs/individual/01-special.gb", "blargg/cpu_instrs/individual/03-op sp,hl.gb", "blargg/cpu_instrs/individual/07-jr,jp,call,ret,rst.gb",
			"blargg/cpu_instrs/individual/08-misc instrs.gb", "blargg/cpu_instrs/individual/11-op a,(hl).gb", "blargg/mem_timing/individual/01-read_timing.gb",
			"blargg/mem_timing/individual/02-write_timing.gb", "blargg/mem_timing/individual/03-modify_timing.gb", "blargg/cpu_instrs/individual/04-op r,imm.gb",
			"blargg/cpu_instrs/individual/05-op rp.gb", "blargg/cpu_instrs/individual/06-ld r,r.gb", "blargg/cpu_instrs/individual/09-op r,r.gb", "blargg/cpu_instrs/individual/10-bit ops.gb",
			"mts-20221022-1430-8d742b9/acceptance/ei_sequence.gb", "mts-20221022-1430-8d742b9/acceptance/ei_timing.gb", "mts-20221022-1430-8d742b9/acceptance/rapid_di_ei.gb",
			"mts-20221022-1430-8d742b9/acceptance/halt_ime0_ei.gb", "mts-20221022-1430-8d742b9/acceptance/halt_ime1_timing.gb", "mts-20221022-1430-8d742b9/acceptance/intr_timing.gb",
			"mts-20221022-1430-8d742b9/acceptance/reti_intr_timing.gb", "mts-20221022-1430-8d742b9/acceptance/if_ie_registers.gb", "mts-20221022-1430-8d742b9/acceptance/di_timing-GS.gb",
			"mts-20221022-1430-8d742b9/acceptance/halt_ime0_nointr_timing.gb", "mts-20221022-1430-8d742b9/acceptance/timer/tima_reload.gb"}
		nroms, windows, units := 6, 2, 1500
		if thorough {
			nroms, windows, units = len(roms), 6, 4000
		}
		k := 0
		// generated busy programs (OAM DMA from work RAM while code runs from ROM, HALT with and without the master
		// enable, timer and IF / IE writes all the time)
		ngen := 2
		if thorough {
			ngen = 8
		}
		for g := 0; g < ngen; g++ {
			rom := intGenROM(c.Out, g)
			for wdw := 0; wdw < 2; wdw++ {
				w.Put(romTrace(fmt.Sprintf("int-rom-gen%d-%d", g, wdw), rom, 40+rng.Intn(30000), units))
			}
		}
		for i := 0; i < nroms; i++ {
			rom := filepath.Join(base, roms[(i*5+int(c.Seed))%len(roms)])
			if thorough {
				rom = filepath.Join(base, roms[i])
			}
			if _, err := os.Stat(rom); err != nil {
				continue
			}
			for wdw := 0; wdw < windows; wdw++ {
				skip := rng.Intn(400000)
				if wdw == 0 {
					skip = rng.Intn(2000)
					if i == 0 {
						skip = 0 // from the very first machine cycle after power-on
					}
				}
				w.Put(romTrace(fmt.Sprintf("int-rom-%d", k), rom, skip, units))
				k++
			}
		}
	}
	w.Close()
}

// romTrace runs a ROM on the full machine (hardware ticking, requests raised by the PPU and the timer) and records
// windows of consecutive units: what was raised is what appeared in IF during the hardware part of each cycle.
// intGenROM writes the g-th generated program (all cartridge variants in turn) into dir and returns its path.
func intGenROM(dir string, g int) string {
	p := filepath.Join(dir, fmt.Sprintf("int-gen-%d.gb", g))
	os.WriteFile(p, genROM(int64(8*(5000+131*g)+[]int{0, 2, 1, 3, 4, 6, 5, 0}[g%8])), 0o644)
	return p
}

func romTrace(id, rom string, skip, units int) *trace.Scenario {
	img, err := os.ReadFile(rom)
	sc := &trace.Scenario{ID: id}
	if err != nil {
		sc.Reset = []any{0, 0, 0, rom, skip, units}
		sc.Ev = [][]any{{"panic", err.Error()}}
		return sc
	}
	m := machine.New(img, machine.Options{})
	var bus [][]int
	cyc := 0
	on := false
	memory.VerifBusObserver = func(mm *memory.Mapper, write bool, addr uint16, value uint8) {
		if !on || mm != m.M {
			return
		}
		if write {
			bus = append(bus, []int{cyc, 1, int(addr), int(value)})
		} else {
			bus = append(bus, []int{cyc, 0, int(addr), int(mm.VerifPeek(addr))})
		}
	}
	defer func() { memory.VerifBusObserver = nil }()
	perr := machine.Try(func() {
		// skip ahead to an instruction boundary after `skip` machine cycles
		// (with skip = 0 the window starts at the very first machine cycle after power-on, boundary or not: a CPU that
		// comes out of its constructor in the middle of something shows as a first unit that is not the first instruction)
		for i := 0; i < skip || (skip > 0 && !m.CPU.VerifAtBoundary()); i++ {
			m.Cycle()
		}
		st := m.CPU.VerifGet()
		sc.Reset = []any{trace.B2I(m.I.Enabled()), int(m.I.ReadIE()), int(m.I.ReadIF() & 0x1f), rom, skip, units, trace.B2I(st.Halted), trace.B2I(st.Haltbug)}
		for u := 0; u < units; u++ {
			pre := regsOf(m.CPU.VerifGet())
			pc := pre[9]
			ob := []int{int(m.M.VerifPeek(uint16(pc))), int(m.M.VerifPeek(uint16(pc + 1))), int(m.M.VerifPeek(uint16(pc + 2)))}
			bus = nil
			raises := [][]int{}
			n := 0
			for {
				cyc = n + 1
				on = true
				m.CPU.ExecuteMachineCycle()
				on = false
				mid := int(m.I.ReadIF() & 0x1f)
				m.Hardware()
				n++
				after := int(m.I.ReadIF() & 0x1f)
				boundary := m.CPU.VerifAtBoundary()
				for b := 0; b < 5; b++ {
					if after>>uint(b)&1 == 1 && mid>>uint(b)&1 == 0 {
						// raised by the hardware at the end of this cycle: visible to the CPU from the next cycle on
						raises = append(raises, []int{n, b})
					}
				}
				if boundary || n >= 12 {
					break
				}
			}
			b := bus
			if b == nil {
				b = [][]int{}
			}
			post := regsOf(m.CPU.VerifGet())
			judged := 1
			if !okStateROM(pre, ob) {
				judged = 0
			}
			sc.Ev = append(sc.Ev, []any{pre, ob, b, post, n, int(m.I.ReadIE()), int(m.I.ReadIF() & 0x1f), raises, []int{}, judged})
		}
	})
	if perr != "" {
		if sc.Reset == nil {
			sc.Reset = []any{0, 0, 0, rom, skip, units, 0, 0}
		}
		sc.Ev = append(sc.Ev, []any{"panic", perr})
	}
	return sc
}

// okStateROM: the instruction's candidate data addresses must not overlap its own bytes (wherever the code lives)
func okStateROM(pre []int, ob []int) bool {
	pc := pre[9]
	for _, a := range candidates(pre, ob) {
		if a >= pc-1 && a <= pc+3 {
			return false
		}
		if a >= 0xe000 && a < 0xfe00 && a-0x2000 >= pc-1 && a-0x2000 <= pc+3 {
			return false
		}
	}
	return !undefinedOps[ob[0]] && ob[0] != 0x10
}

func intRerun(c *Ctx) {
	scs, err := trace.ReadAll(c.In)
	if err != nil {
		die("%v", err)
	}
	rig := newIntRig()
	w := trace.NewWriter(c.Out, "int-rerun", 1<<30)
	for _, s := range scs {
		if rr, ok := s.Reset.([]any); ok && len(rr) >= 6 {
			if rom, isStr := rr[3].(string); isStr {
				if b := filepath.Base(rom); strings.HasPrefix(b, "int-gen-") {
					g := 0
					fmt.Sscanf(b, "int-gen-%d.gb", &g)
					rom = intGenROM(c.Out, g) // generated ROMs are regenerated
				}
				w.Put(romTrace(s.ID, rom, trace.Int(rr[4]), trace.Int(rr[5])))
				continue
			}
		}
		// the script is recovered from the recorded scenario: first unit's registers, the bytes seen at each PC,
		// the reset record and the raise offsets converted back to global cycles
		r := trace.Ints(s.Reset)
		sc := &intScript{ID: s.ID, IME: r[0], IE: r[1], IF: r[2], Units: len(s.Ev)}
		t := 0
		first := true
		for _, e := range s.Ev {
			pre := trace.Ints(e[0])
			if first {
				sc.Regs = pre
				first = false
			}
			for _, rz := range e[7].([]any) {
				x := trace.Ints(rz)
				sc.Raises = append(sc.Raises, [2]int{t + x[0], x[1]})
			}
			if len(e) > 8 {
				for _, k := range trace.Ints(e[8]) {
					sc.Keys = append(sc.Keys, t+k)
				}
			}
			t += trace.Int(e[4])
		}
		// code bytes: everything observed at PCs inside the program area
		code := map[int]int{}
		for _, e := range s.Ev {
			pre := trace.Ints(e[0])
			ob := trace.Ints(e[1])
			for i := 0; i < 3; i++ {
				a := pre[9] + i
				if a >= 0xc000 && a < 0xc0f0 {
					code[a] = ob[i]
				}
			}
		}
		max := sc.Regs[9]
		for a := range code {
			if a > max {
				max = a
			}
		}
		for a := sc.Regs[9]; a <= max; a++ {
			sc.Code = append(sc.Code, code[a])
		}
		if strings.HasPrefix(s.ID, "int-hdbg-") {
			// recorded with the CPU trace on: the same again
			stdout := os.Stdout
			if null, err := os.OpenFile(os.DevNull, os.O_WRONLY, 0); err == nil {
				os.Stdout = null
				drig := newIntRigOpt(true)
				out := drig.run(sc)
				os.Stdout = stdout
				null.Close()
				w.Put(out)
				rig = newIntRig()
				continue
			}
		}
		w.Put(rig.run(sc))
	}
	w.Close()
}
