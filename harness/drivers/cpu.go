package drivers

import (
	"bufio"
	"fmt"
	"math/rand"
	"os"
	"path/filepath"
	"strconv"
	"strings"

	"github.com/scottyw/tetromino/gameboy/cpu"
	"github.com/scottyw/tetromino/gameboy/memory"

	"verif/harness/machine"
	"verif/harness/trace"
)

func init() { Registry["cpu"] = cpuMain }

var undefinedOps = map[int]bool{0xd3: true, 0xdb: true, 0xdd: true, 0xe3: true, 0xe4: true, 0xeb: true, 0xec: true, 0xed: true, 0xf4: true, 0xfc: true, 0xfd: true}

// cpuRig is a machine whose CPU is driven one unit at a time.
type cpuRig struct {
	m     *machine.Machine
	bus   [][]int
	cycle int
	cpuOn bool
}

func newCPURig() *cpuRig {
	r := &cpuRig{}
	// MBC1+RAM+BATTERY, 64 KiB ROM, 32 KiB RAM: A000-BFFF is real memory
	r.m = machine.New(machine.Cart(0x03, 1, 3), machine.Options{})
	r.m.M.Write(0x0000, 0x0a) // enable cartridge RAM
	r.m.QuietLCD()
	r.m.I.Disable()
	r.m.I.WriteIE(0)
	r.m.I.WriteIF(0)
	memory.VerifBusObserver = func(mm *memory.Mapper, write bool, addr uint16, value uint8) {
		if !r.cpuOn || mm != r.m.M {
			return
		}
		if write {
			r.bus = append(r.bus, []int{r.cycle, 1, int(addr), int(value)})
		} else {
			r.bus = append(r.bus, []int{r.cycle, 0, int(addr), int(mm.VerifPeek(addr))})
		}
	}
	return r
}

func regsOf(v cpu.VerifRegs) []int {
	return []int{int(v.A), int(v.F), int(v.B), int(v.C), int(v.D), int(v.E), int(v.H), int(v.L), int(v.SP), int(v.PC)}
}

func regsFrom(s []int) cpu.VerifRegs {
	return cpu.VerifRegs{A: uint8(s[0]), F: uint8(s[1]), B: uint8(s[2]), C: uint8(s[3]), D: uint8(s[4]), E: uint8(s[5]),
		H: uint8(s[6]), L: uint8(s[7]), SP: uint16(s[8]), PC: uint16(s[9])}
}

// poke writes through the mapper without the observer seeing it.
func (r *cpuRig) poke(addr int, v int) {
	on := r.cpuOn
	r.cpuOn = false
	r.m.M.Write(uint16(addr), uint8(v))
	r.cpuOn = on
}

// candidates are the addresses an instruction could use as data addresses,
// derived from the register file and the operand bytes without looking at
// the opcode.
func candidates(pre []int, ob []int) []int {
	bc := pre[2]<<8 | pre[3]
	de := pre[4]<<8 | pre[5]
	hl := pre[6]<<8 | pre[7]
	sp := pre[8]
	nn := ob[2]<<8 | ob[1]
	c := []int{bc, de, hl, sp, (sp + 1) & 0xffff, (sp + 0xffff) & 0xffff, (sp + 0xfffe) & 0xffff, nn, (nn + 1) & 0xffff, 0xff00 + ob[1], 0xff00 + pre[3]}
	seen := map[int]bool{}
	var out []int
	for _, a := range c {
		if !seen[a] {
			seen[a] = true
			out = append(out, a)
		}
	}
	return out
}

// okState is the precondition of the C01-C03 events: no candidate data
// address inside the instruction's own bytes or in FE00-FEFF (that range
// belongs to C17), and the code bytes in plain RAM.
func okState(pre []int, ob []int) bool {
	pc := pre[9]
	inRAM := func(a int) bool { return (a >= 0xc000 && a < 0xde00) || (a >= 0xff80 && a < 0xfffe) }
	if !inRAM(pc) || !inRAM(pc+3) {
		return false
	}
	for _, a := range candidates(pre, ob) {
		if a >= pc-1 && a <= pc+3 {
			return false
		}
		// the echo of the code window
		if a >= 0xe000 && a < 0xfe00 && a-0x2000 >= pc-1 && a-0x2000 <= pc+3 {
			return false
		}
		if a >= 0xfe00 && a <= 0xfeff {
			return false
		}
	}
	return true
}

// unit executes one instruction from the given state. placed = data bytes to
// put at addresses before running.
func (r *cpuRig) unit(pre []int, ob []int, placed [][]int) []any {
	m := r.m
	for i := 0; i < 3; i++ {
		r.poke(pre[9]+i, ob[i])
	}
	for _, p := range placed {
		r.poke(p[0], p[1])
	}
	m.I.Disable()
	m.I.WriteIE(0)
	m.I.WriteIF(0)
	m.CPU.VerifSet(regsFrom(pre))
	r.bus = nil
	r.cycle = 0
	n := 0
	r.cpuOn = true
	for {
		r.cycle = n + 1
		m.CPU.ExecuteMachineCycle()
		n++
		if m.CPU.VerifAtBoundary() || n >= 12 {
			break
		}
	}
	r.cpuOn = false
	post := regsOf(m.CPU.VerifGet())
	bus := r.bus
	if bus == nil {
		bus = [][]int{}
	}
	return []any{1, pre, ob, bus, post, n}
}

// unitPert executes one instruction while the harness rewrites every
// candidate address before each cycle and snapshots it after each cycle.
func (r *cpuRig) unitPert(pre []int, ob []int, sched [][]any) []any {
	m := r.m
	for i := 0; i < 3; i++ {
		r.poke(pre[9]+i, ob[i])
	}
	m.I.Disable()
	m.I.WriteIE(0)
	m.I.WriteIF(0)
	m.CPU.VerifSet(regsFrom(pre))
	n := 0
	snaps := make([][]any, len(sched))
	vals := make([][]int, len(sched))
	for i, s := range sched {
		snaps[i] = []any{s[0], nil}
		vals[i] = nil
	}
	for {
		for _, s := range sched {
			r.poke(s[0].(int), s[1].([]int)[n])
		}
		m.CPU.ExecuteMachineCycle()
		n++
		for i, s := range sched {
			vals[i] = append(vals[i], int(m.M.VerifPeek(uint16(s[0].(int)))))
		}
		if m.CPU.VerifAtBoundary() || n >= 6 {
			break
		}
	}
	for i := range snaps {
		snaps[i][1] = vals[i]
	}
	post := regsOf(m.CPU.VerifGet())
	return []any{2, pre, ob, sched, snaps, post, n}
}

func randRegs(rng *rand.Rand, pcLo, pcHi int) []int {
	s := make([]int, 10)
	for i := 0; i < 8; i++ {
		s[i] = rng.Intn(256)
	}
	s[1] &= 0xf0
	s[8] = rng.Intn(65536)
	s[9] = pcLo + rng.Intn(pcHi-pcLo)
	return s
}

// region pointers: all pointer registers inside [lo,hi)
func regionRegs(rng *rand.Rand, lo, hi int) []int {
	s := randRegs(rng, 0xc100, 0xc800)
	pick := func() int { return lo + 4 + rng.Intn(hi-lo-8) }
	bc, de, hl, sp := pick(), pick(), pick(), pick()
	s[2], s[3], s[4], s[5], s[6], s[7], s[8] = bc>>8, bc&0xff, de>>8, de&0xff, hl>>8, hl&0xff, sp
	return s
}

func opBytes(op int, cb bool, b1, b2 int) []int {
	if cb {
		return []int{0xcb, op, b2}
	}
	return []int{op, b1, b2}
}

type opc struct {
	op int
	cb bool
}

func allOps() []opc {
	var out []opc
	for o := 0; o < 256; o++ {
		if !undefinedOps[o] && o != 0xcb {
			out = append(out, opc{o, false})
		}
	}
	for o := 0; o < 256; o++ {
		out = append(out, opc{o, true})
	}
	return out
}

func cpuMain(c *Ctx) {
	switch c.Mode {
	case "gen":
		cpuGen(c)
	case "rerun":
		cpuRerun(c)
	default:
		die("cpu: unknown mode %s", c.Mode)
	}
}

type cpuEmitter struct {
	w     *trace.Writer
	fam   string
	sc    *trace.Scenario
	n     int
	group int
}

func (e *cpuEmitter) add(ev []any) {
	if e.sc == nil {
		e.sc = &trace.Scenario{ID: fmt.Sprintf("cpu-%s-%d", e.fam, e.n), Reset: []int{}}
		e.n++
	}
	e.sc.Ev = append(e.sc.Ev, ev)
	if len(e.sc.Ev) >= e.group {
		e.flush()
	}
}

func (e *cpuEmitter) flush() {
	if e.sc != nil && len(e.sc.Ev) > 0 {
		e.w.Put(e.sc)
	}
	e.sc = nil
}

func cpuGen(c *Ctx) {
	rig := newCPURig()
	w := trace.NewWriter(c.Out, "cpu", 60000)
	em := func(fam string) *cpuEmitter { return &cpuEmitter{w: w, fam: fam, group: 25} }
	thorough := c.Thorough()
	ops := allOps()

	// draw a state satisfying the precondition
	draw := func(rng *rand.Rand, ob []int, gen func() []int) []int {
		for i := 0; i < 5000; i++ {
			s := gen()
			if okState(s, ob) {
				return s
			}
			if i%50 == 49 && ob[0] != 0xcb {
				// the operand bytes may be what violates the precondition (nn in FE00-FEFF or in the code window)
				ob[2] = rng.Intn(256)
			} else if i%50 == 49 {
				ob[2] = rng.Intn(256)
			}
		}
		panic(fmt.Sprintf("no state satisfies the precondition for % x", ob))
	}
	place := func(rng *rand.Rand, pre, ob []int) [][]int {
		var p [][]int
		for _, a := range candidates(pre, ob) {
			p = append(p, []int{a, rng.Intn(256)})
		}
		return p
	}

	if c.Want("ops") {
		rng := c.Rand(101)
		e := em("ops")
		k := 48
		if thorough {
			k = 400
		}
		for _, o := range ops {
			for i := 0; i < k; i++ {
				ob := opBytes(o.op, o.cb, rng.Intn(256), rng.Intn(256))
				lo, hi := 0xc000, 0xdd00
				if i%5 == 4 {
					lo, hi = 0xff80, 0xfff0
				}
				pre := draw(rng, ob, func() []int { return randRegs(rng, lo, hi) })
				e.add(rig.unit(pre, ob, place(rng, pre, ob)))
			}
		}
		e.flush()
	}
	if c.Want("flags") {
		// every opcode x all 16 flag nibbles: both outcomes of every condition (C02)
		rng := c.Rand(102)
		e := em("flags")
		for _, o := range ops {
			for fn := 0; fn < 16; fn++ {
				ob := opBytes(o.op, o.cb, rng.Intn(256), rng.Intn(256))
				pre := draw(rng, ob, func() []int { s := randRegs(rng, 0xc000, 0xdd00); s[1] = fn << 4; return s })
				e.add(rig.unit(pre, ob, place(rng, pre, ob)))
			}
		}
		e.flush()
	}
	if c.Want("alu") {
		// 8-bit ALU: A x operand x carry-in, register operand (B), plus samples of the immediate and (HL) forms
		rng := c.Rand(103)
		e := em("alu")
		var as, vs []int
		if thorough {
			for i := 0; i < 256; i++ {
				as = append(as, i)
				vs = append(vs, i)
			}
		} else {
			base := []int{0, 1, 0x0f, 0x10, 0x7f, 0x80, 0x99, 0x9a, 0xf0, 0xfe, 0xff}
			as = append(as, base...)
			vs = append(vs, base...)
			for len(as) < 56 {
				as = append(as, rng.Intn(256))
			}
			for len(vs) < 56 {
				vs = append(vs, rng.Intn(256))
			}
		}
		for y := 0; y < 8; y++ {
			for _, a := range as {
				for _, v := range vs {
					for cf := 0; cf < 2; cf++ {
						form := rng.Intn(8)
						var ob []int
						switch {
						case form == 0:
							ob = []int{0xc6 + 8*y, v, rng.Intn(256)} // immediate
						case form == 1:
							ob = []int{0x86 + 8*y, rng.Intn(256), rng.Intn(256)} // (HL)
						default:
							ob = []int{0x81 + 8*y, rng.Intn(256), rng.Intn(256)} // C
						}
						pre := draw(rng, ob, func() []int {
							s := regionRegs(rng, 0xd000, 0xdd00)
							s[0], s[1] = a, (rng.Intn(16)&0xe|cf)<<4
							if form >= 2 {
								s[3] = v
							}
							return s
						})
						pl := place(rng, pre, ob)
						if form == 1 {
							hl := pre[6]<<8 | pre[7]
							for _, p := range pl {
								if p[0] == hl {
									p[1] = v
								}
							}
						}
						e.add(rig.unit(pre, ob, pl))
					}
				}
			}
		}
		e.flush()
	}
	if c.Want("rot") {
		// all CB rotates/shifts x 256 values x carry (register B and (HL)); RLCA/RRCA/RLA/RRA; DAA x all flag nibbles; CPL/SCF/CCF
		rng := c.Rand(104)
		e := em("rot")
		for y := 0; y < 8; y++ {
			for v := 0; v < 256; v++ {
				for cf := 0; cf < 2; cf++ {
					z := 1
					if rng.Intn(6) == 0 {
						z = 6
					}
					ob := []int{0xcb, y*8 + z, rng.Intn(256)}
					pre := draw(rng, ob, func() []int {
						s := regionRegs(rng, 0xd000, 0xdd00)
						s[1] = (rng.Intn(16)&0xe | cf) << 4
						s[3] = v
						return s
					})
					pl := place(rng, pre, ob)
					hl := pre[6]<<8 | pre[7]
					for _, p := range pl {
						if p[0] == hl {
							p[1] = v
						}
					}
					e.add(rig.unit(pre, ob, pl))
				}
			}
		}
		for _, op := range []int{0x07, 0x0f, 0x17, 0x1f, 0x2f, 0x37, 0x3f} {
			for v := 0; v < 256; v++ {
				for fn := 0; fn < 16; fn += 1 {
					if op >= 0x2f && fn%4 != 0 && rng.Intn(4) != 0 {
						continue
					}
					ob := []int{op, rng.Intn(256), rng.Intn(256)}
					pre := draw(rng, ob, func() []int { s := randRegs(rng, 0xc000, 0xdd00); s[0], s[1] = v, fn<<4; return s })
					e.add(rig.unit(pre, ob, nil))
				}
			}
		}
		for a := 0; a < 256; a++ {
			for fn := 0; fn < 16; fn++ {
				ob := []int{0x27, rng.Intn(256), rng.Intn(256)}
				pre := draw(rng, ob, func() []int { s := randRegs(rng, 0xc000, 0xdd00); s[0], s[1] = a, fn<<4; return s })
				e.add(rig.unit(pre, ob, nil))
			}
		}
		e.flush()
	}
	if c.Want("bit") {
		// INC/DEC r and (HL) x 256; BIT/RES/SET b x 256 values (register and (HL))
		rng := c.Rand(105)
		e := em("bit")
		for _, op := range []int{0x0c, 0x0d, 0x1c, 0x1d, 0x34, 0x35, 0x3c, 0x3d, 0x2c, 0x2d} {
			for v := 0; v < 256; v++ {
				ob := []int{op, rng.Intn(256), rng.Intn(256)}
				pre := draw(rng, ob, func() []int {
					s := regionRegs(rng, 0xd000, 0xdd00)
					s[0], s[3], s[5] = v, v, v
					if op == 0x2c || op == 0x2d {
						s[7] = v
					}
					return s
				})
				pl := place(rng, pre, ob)
				hl := pre[6]<<8 | pre[7]
				for _, p := range pl {
					if p[0] == hl {
						p[1] = v
					}
				}
				e.add(rig.unit(pre, ob, pl))
			}
		}
		for x := 1; x < 4; x++ {
			for y := 0; y < 8; y++ {
				for v := 0; v < 256; v++ {
					z := []int{1, 3, 5, 6, 7}[rng.Intn(5)]
					ob := []int{0xcb, x*64 + y*8 + z, rng.Intn(256)}
					pre := draw(rng, ob, func() []int {
						s := regionRegs(rng, 0xd000, 0xdd00)
						switch z {
						case 1:
							s[3] = v
						case 3:
							s[5] = v
						case 5:
							s[7] = v
						case 7:
							s[0] = v
						}
						return s
					})
					pl := place(rng, pre, ob)
					hl := pre[6]<<8 | pre[7]
					for _, p := range pl {
						if p[0] == hl {
							p[1] = v
						}
					}
					e.add(rig.unit(pre, ob, pl))
				}
			}
		}
		e.flush()
	}
	if c.Want("sp") {
		// ADD SP,e and LD HL,SP+e: every e, SP low bytes (all in thorough), a few high bytes
		rng := c.Rand(106)
		e := em("sp")
		var lows []int
		if thorough {
			for i := 0; i < 256; i++ {
				lows = append(lows, i)
			}
		} else {
			lows = []int{0x00, 0x01, 0x0f, 0x10, 0x7f, 0x80, 0xf0, 0xff}
			for len(lows) < 40 {
				lows = append(lows, rng.Intn(256))
			}
		}
		highs := []int{0x00, 0xff}
		if thorough {
			highs = []int{0x00, 0x0f, 0x80, 0xff}
		}
		for _, op := range []int{0xe8, 0xf8} {
			for ev := 0; ev < 256; ev++ {
				for _, lo := range lows {
					hi := highs[rng.Intn(len(highs))]
					if thorough && len(highs) > 2 && rng.Intn(2) == 0 {
						hi = rng.Intn(256)
					}
					ob := []int{op, ev, rng.Intn(256)}
					pre := randRegs(rng, 0xc800, 0xcc00)
					pre[8] = hi<<8 | lo
					// these two opcodes do not access memory; keep the other pointers in plain RAM
					pre[2], pre[4], pre[6] = 0xd0, 0xd1, 0xd2
					e.add(rig.unit(pre, ob, nil))
				}
			}
		}
		e.flush()
	}
	if c.Want("w16") {
		// 16-bit INC/DEC (all values in thorough), ADD HL,rr boundary lattice + random
		rng := c.Rand(107)
		e := em("w16")
		var vals []int
		if thorough {
			for v := 0; v < 65536; v++ {
				if v < 0xfdf8 || v > 0xff07 {
					vals = append(vals, v)
				}
			}
		} else {
			vals = []int{0, 1, 0xff, 0x100, 0xfff, 0x1000, 0x7fff, 0x8000, 0xfdf7, 0xff08, 0xfffe, 0xffff}
			for len(vals) < 300 {
				v := rng.Intn(65536)
				if v < 0xfdf8 || v > 0xff07 {
					vals = append(vals, v)
				}
			}
		}
		for _, op := range []int{0x03, 0x13, 0x23, 0x33, 0x0b, 0x1b, 0x2b, 0x3b} {
			p := (op >> 4) & 3
			for _, v := range vals {
				ob := []int{op, 0x90, 0xd3}
				pre := randRegs(rng, 0xc800, 0xcc00)
				pre[2], pre[3], pre[4], pre[5], pre[6], pre[7], pre[8] = 0xd0, rng.Intn(256), 0xd1, rng.Intn(256), 0xd2, rng.Intn(256), 0xd400+rng.Intn(256)
				switch p {
				case 0:
					pre[2], pre[3] = v>>8, v&0xff
				case 1:
					pre[4], pre[5] = v>>8, v&0xff
				case 2:
					pre[6], pre[7] = v>>8, v&0xff
				case 3:
					pre[8] = v
				}
				e.add(rig.unit(pre, ob, nil))
			}
		}
		lat := []int{0, 1, 0xff, 0x100, 0xfff, 0x1000, 0x7fff, 0x8000, 0xf000, 0xffff, 0x0800, 0x0f00, 0x8fff}
		type pair struct{ a, b int }
		var pairs []pair
		for _, a := range lat {
			for _, b := range lat {
				pairs = append(pairs, pair{a, b})
			}
		}
		nr := 3000
		if thorough {
			nr = 100000
		}
		for i := 0; i < nr; i++ {
			pairs = append(pairs, pair{rng.Intn(65536), rng.Intn(65536)})
		}
		for _, pr := range pairs {
			p := rng.Intn(4)
			op := 0x09 + p*16
			ob := []int{op, 0x90, 0xd3}
			pre := randRegs(rng, 0xc800, 0xcc00)
			pre[6], pre[7] = pr.a>>8, pr.a&0xff
			switch p {
			case 0:
				pre[2], pre[3] = pr.b>>8, pr.b&0xff
			case 1:
				pre[4], pre[5] = pr.b>>8, pr.b&0xff
			case 3:
				pre[8] = pr.b
			}
			e.add(rig.unit(pre, ob, nil))
		}
		e.flush()
	}
	if c.Want("mem") {
		// every opcode with all pointers steered into each memory region (C03: addressed location)
		rng := c.Rand(108)
		e := em("mem")
		regions := [][2]int{{0xc000, 0xde00}, {0xe000, 0xfe00}, {0xff80, 0xffff}, {0x8000, 0xa000}, {0xa000, 0xc000}, {0xff10, 0xff40}, {0x0000, 0x8000}}
		k := 3
		if thorough {
			k = 16
		}
		for _, o := range ops {
			for _, rg := range regions {
				for i := 0; i < k; i++ {
					var ob []int
					pre := draw(rng, []int{0, 0, 0}, func() []int {
						nn := rg[0] + 4 + rng.Intn(rg[1]-rg[0]-8)
						b1 := nn & 0xff
						ob = opBytes(o.op, o.cb, b1, nn>>8)
						s := regionRegs(rng, rg[0], rg[1])
						if rg[0] >= 0xff00 {
							s[3] = rg[0]&0xff + rng.Intn(rg[1]-rg[0])
							if !o.cb {
								ob[1] = rg[0]&0xff + rng.Intn(rg[1]-rg[0])
							}
						}
						if !okState(s, ob) {
							s[9] = 0
						}
						return s
					})
					e.add(rig.unit(pre, ob, place(rng, pre, ob)))
				}
			}
		}
		e.flush()
	}
	if c.Want("pert") {
		// perturbation family: the harness rewrites every candidate address before each machine cycle
		rng := c.Rand(109)
		e := em("pert")
		k := 6
		if thorough {
			k = 40
		}
		for _, o := range ops {
			if o.op == 0x10 && !o.cb {
				continue
			}
			for i := 0; i < k; i++ {
				var ob []int
				lo, hi := 0xd000, 0xdd00
				if i%3 == 2 {
					lo, hi = 0xff80, 0xfff8
				}
				plain := func(a int) bool { return (a >= 0xc000 && a < 0xde00) || (a >= 0xff80 && a < 0xffff) }
				// a CB-prefixed opcode has no operand bytes: its candidates come from the registers only
				cands := func(s []int, ob []int) []int {
					if o.cb {
						return candidates(s, []int{0xcb, s[3], 0xff})
					}
					return candidates(s, ob)
				}
				pre := draw(rng, []int{0, 0, 0}, func() []int {
					nn := (lo + 4 + rng.Intn(hi-lo-8)) | 0x80
					ob = opBytes(o.op, o.cb, nn&0xff, nn>>8)
					s := regionRegs(rng, lo, hi)
					s[3] = 0x80 + rng.Intn(0x70)
					if !okState(s, ob) {
						s[9] = 0
					}
					// all candidates must be plain RAM here
					for _, a := range cands(s, ob) {
						if !plain(a) {
							s[9] = 0
						}
					}
					return s
				})
				var sched [][]any
				for _, a := range cands(pre, ob) {
					vs := make([]int, 6)
					for j := range vs {
						vs[j] = rng.Intn(256)
					}
					sched = append(sched, []any{a, vs})
				}
				e.add(rig.unitPert(pre, ob, sched))
			}
		}
		e.flush()
	}
	if c.Want("daacsv") {
		// the repository's own DAA table, row by row (validates the specification's Daa)
		e := em("daacsv")
		e.group = 64
		repo := os.Getenv("VERIF_REPO")
		if repo == "" {
			repo = "/repo"
		}
		f, err := os.Open(filepath.Join(repo, "daa.csv"))
		if err == nil {
			sc := bufio.NewScanner(f)
			for sc.Scan() {
				parts := strings.Split(strings.TrimSpace(sc.Text()), ",")
				if len(parts) != 4 {
					continue
				}
				var v [4]int
				ok := true
				for i, p := range parts {
					x, err := strconv.ParseInt(strings.TrimPrefix(p, "0x"), 16, 32)
					if err != nil {
						ok = false
					}
					v[i] = int(x)
				}
				if ok {
					e.add([]any{3, v[0], v[1], v[2], v[3]})
				}
			}
			f.Close()
		}
		e.flush()
	}
	w.Close()
}

func cpuRerun(c *Ctx) {
	scs, err := trace.ReadAll(c.In)
	if err != nil {
		die("%v", err)
	}
	rig := newCPURig()
	w := trace.NewWriter(c.Out, "cpu-rerun", 1<<30)
	for _, s := range scs {
		out := &trace.Scenario{ID: s.ID, Reset: []int{}}
		for _, e := range s.Ev {
			switch trace.Int(e[0]) {
			case 1:
				// the data bytes to place are the values the recorded execution read
				var placed [][]int
				for _, p := range e[3].([]any) {
					b := trace.Ints(p)
					if b[1] == 0 {
						placed = append(placed, []int{b[2], b[3]})
					}
				}
				pre, ob := trace.Ints(e[1]), trace.Ints(e[2])
				// instruction bytes last, so that they win
				out.Ev = append(out.Ev, rig.unit(pre, ob, placed))
			case 2:
				var sched [][]any
				for _, p := range e[3].([]any) {
					pp := p.([]any)
					sched = append(sched, []any{trace.Int(pp[0]), trace.Ints(pp[1])})
				}
				out.Ev = append(out.Ev, rig.unitPert(trace.Ints(e[1]), trace.Ints(e[2]), sched))
			case 3:
				out.Ev = append(out.Ev, e)
			}
		}
		w.Put(out)
	}
	w.Close()
}
