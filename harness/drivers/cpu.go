package drivers

import (
	"bufio"
	"fmt"
	"math/rand"
	"os"
	"path/filepath"
	"strconv"
	"strings"

	"github.com/scottyw/tetromino/gameboy/cpu"
	"github.com/scottyw/tetromino/gameboy/memory"

	"verif/harness/machine"
	"verif/harness/trace"
)

func init() { Registry["cpu"] = cpuMain }

var undefinedOps = map[int]bool{0xd3: true, 0xdb: true, 0xdd: true, 0xe3: true, 0xe4: true, 0xeb: true, 0xec: true, 0xed: true, 0xf4: true, 0xfc: true, 0xfd: true}

// cpuRig is a machine whose CPU is driven one unit at a time.
type cpuRig struct {
	m     *machine.Machine
	bus   [][]int
	cycle int
	cpuOn bool
	decoy *machine.Machine // never stepped; see newCPURig
}

func newCPURig() *cpuRig { return newCPURigOpt(false) }

// newCPURigOpt: debug = the emulator's CPU trace (Config.DebugCPU) switched on; the caller silences stdout.
func newCPURigOpt(debug bool) *cpuRig {
	r := &cpuRig{}
	// MBC1+RAM+BATTERY, 64 KiB ROM, 32 KiB RAM: A000-BFFF is real memory
	r.m = machine.New(machine.Cart(0x03, 1, 3), machine.Options{DebugCPU: debug})
	r.m.M.Write(0x0000, 0x0a) // enable cartridge RAM
	r.m.QuietLCD()
	r.m.I.Disable()
	r.m.I.WriteIE(0)
	r.m.I.WriteIF(0)
	// a second emulator created afterwards and left alone (registers as at power-on, F = B0): an instruction of the
	// first one must not depend on it (dispatch tables, condition predicates or flags shared between instances)
	r.decoy = machine.New(machine.BlankROM(0x00), machine.Options{})
	// the machine has a past: an OAM DMA has run to its end (a program that has used the DMA once is the normal case)
	r.m.M.Write(0xff46, 0xc1)
	for i := 0; i < 200; i++ {
		r.m.M.EndMachineCycle()
	}
	memory.VerifBusObserver = func(mm *memory.Mapper, write bool, addr uint16, value uint8) {
		if !r.cpuOn || mm != r.m.M {
			return
		}
		if write {
			r.bus = append(r.bus, []int{r.cycle, 1, int(addr), int(value)})
		} else {
			r.bus = append(r.bus, []int{r.cycle, 0, int(addr), int(mm.VerifPeek(addr))})
		}
	}
	return r
}

func regsOf(v cpu.VerifRegs) []int {
	return []int{int(v.A), int(v.F), int(v.B), int(v.C), int(v.D), int(v.E), int(v.H), int(v.L), int(v.SP), int(v.PC)}
}

func regsFrom(s []int) cpu.VerifRegs {
	return cpu.VerifRegs{A: uint8(s[0]), F: uint8(s[1]), B: uint8(s[2]), C: uint8(s[3]), D: uint8(s[4]), E: uint8(s[5]),
		H: uint8(s[6]), L: uint8(s[7]), SP: uint16(s[8]), PC: uint16(s[9])}
}

// poke writes through the mapper without the observer seeing it.
func (r *cpuRig) poke(addr int, v int) {
	// placing "data" at a register with side effects is not placing data: FF46 would start a DMA, FF40 switch the LCD
	// on, FF04-FF07 move the timer (the sound registers are fair game for the mem family)
	if addr&0xffff >= 0xff00 && addr&0xffff <= 0xff0f || addr&0xffff >= 0xff40 && addr&0xffff <= 0xff4b {
		return
	}
	on := r.cpuOn
	r.cpuOn = false
	r.m.M.Write(uint16(addr), uint8(v))
	r.cpuOn = on
}

// candidates are the addresses an instruction could use as data addresses,
// derived from the register file and the operand bytes without looking at
// the opcode.
func candidates(pre []int, ob []int) []int {
	bc := pre[2]<<8 | pre[3]
	de := pre[4]<<8 | pre[5]
	hl := pre[6]<<8 | pre[7]
	sp := pre[8]
	nn := ob[2]<<8 | ob[1]
	c := []int{bc, de, hl, sp, (sp + 1) & 0xffff, (sp + 0xffff) & 0xffff, (sp + 0xfffe) & 0xffff, nn, (nn + 1) & 0xffff, 0xff00 + ob[1], 0xff00 + pre[3]}
	seen := map[int]bool{}
	var out []int
	for _, a := range c {
		if !seen[a] {
			seen[a] = true
			out = append(out, a)
		}
	}
	return out
}

// okState is the precondition of the C01-C03 events: no candidate data
// address inside the instruction's own bytes or in FE00-FEFF (that range
// belongs to C17), and the code bytes in plain RAM.
// okAllowOAM: the rig's LCD is off, so FE00-FE9F is plain memory; the mem family lets pointers into it (set only there)
var okAllowOAM bool

func okState(pre []int, ob []int) bool {
	pc := pre[9]
	inRAM := func(a int) bool { return (a >= 0xc000 && a < 0xde00) || (a >= 0xff80 && a < 0xfffe) }
	if !inRAM(pc) || !inRAM(pc+3) {
		return false
	}
	for _, a := range candidates(pre, ob) {
		if a >= pc-1 && a <= pc+3 {
			return false
		}
		// the echo of the code window
		if a >= 0xe000 && a < 0xfe00 && a-0x2000 >= pc-1 && a-0x2000 <= pc+3 {
			return false
		}
		if a >= 0xfe00 && a <= 0xfeff && !(okAllowOAM && a < 0xfea0) {
			return false
		}
	}
	return true
}

// unit executes one instruction from the given state. placed = data bytes to
// put at addresses before running.
func (r *cpuRig) unit(pre []int, ob []int, placed [][]int) []any {
	return r.unitOpt(pre, ob, placed, -1, -1)
}

func (r *cpuRig) unitKey(pre []int, ob []int, placed [][]int, keyAfter int) []any {
	return r.unitOpt(pre, ob, placed, keyAfter, -1)
}

// unitKey: as unit; a key event (what the display's callback does: CPU.OnInput) arrives after machine cycle keyAfter
// of the instruction (-1: never). It ends STOP and nothing else: an instruction under way is not disturbed.
// dmaPage >= 0: an OAM DMA from that page is started right before the instruction and is still running while it
// executes (the CPU of this emulator is not held up by a DMA; the property states instruction lengths without exception).
// Any transfer an earlier unit started (LDH (46),A ...) is run to its end first, so that units do not depend on each other.
func (r *cpuRig) unitOpt(pre []int, ob []int, placed [][]int, keyAfter, dmaPage int) []any {
	m := r.m
	for i := 0; i < 200; i++ {
		if busy, _ := m.O.VerifDMA(); !busy {
			break
		}
		m.M.EndMachineCycle()
	}
	if dmaPage >= 0 {
		m.M.Write(0xff46, uint8(dmaPage))
	}
	for i := 0; i < 3; i++ {
		r.poke(pre[9]+i, ob[i])
	}
	for _, p := range placed {
		r.poke(p[0], p[1])
	}
	m.I.Disable()
	m.I.WriteIE(0)
	m.I.WriteIF(0)
	m.CPU.VerifSet(regsFrom(pre))
	r.bus = nil
	r.cycle = 0
	n := 0
	r.cpuOn = true
	for {
		r.cycle = n + 1
		m.CPU.ExecuteMachineCycle()
		n++
		if n == keyAfter {
			m.CPU.OnInput()
		}
		if m.CPU.VerifAtBoundary() || n >= 12 {
			break
		}
	}
	r.cpuOn = false
	post := regsOf(m.CPU.VerifGet())
	bus := r.bus
	if bus == nil {
		bus = [][]int{}
	}
	return []any{1, pre, ob, bus, post, n, runState(m.CPU.VerifGet()), keyAfter, dmaPage}
}

// runState: 1 halted, 2 stopped, 4 halt bug armed - what decides whether the CPU goes on fetching
func runState(g cpu.VerifRegs) int {
	return trace.B2I(g.Halted) | trace.B2I(g.Stopped)<<1 | trace.B2I(g.Haltbug)<<2
}

// unitPert executes one instruction while the harness rewrites every
// candidate address before each cycle and snapshots it after each cycle.
func (r *cpuRig) unitPert(pre []int, ob []int, sched [][]any) []any {
	m := r.m
	for i := 0; i < 3; i++ {
		r.poke(pre[9]+i, ob[i])
	}
	m.I.Disable()
	m.I.WriteIE(0)
	m.I.WriteIF(0)
	m.CPU.VerifSet(regsFrom(pre))
	n := 0
	snaps := make([][]any, len(sched))
	vals := make([][]int, len(sched))
	for i, s := range sched {
		snaps[i] = []any{s[0], nil}
		vals[i] = nil
	}
	for {
		for _, s := range sched {
			r.poke(s[0].(int), s[1].([]int)[n])
		}
		m.CPU.ExecuteMachineCycle()
		n++
		for i, s := range sched {
			vals[i] = append(vals[i], int(m.M.VerifPeek(uint16(s[0].(int)))))
		}
		if m.CPU.VerifAtBoundary() || n >= 6 {
			break
		}
	}
	for i := range snaps {
		snaps[i][1] = vals[i]
	}
	post := regsOf(m.CPU.VerifGet())
	return []any{2, pre, ob, sched, snaps, post, n}
}

func randRegs(rng *rand.Rand, pcLo, pcHi int) []int {
	s := make([]int, 10)
	for i := 0; i < 8; i++ {
		s[i] = rng.Intn(256)
	}
	s[1] &= 0xf0
	s[8] = rng.Intn(65536)
	s[9] = pcLo + rng.Intn(pcHi-pcLo)
	return s
}

// region pointers: all pointer registers inside [lo,hi)
func regionRegs(rng *rand.Rand, lo, hi int) []int {
	s := randRegs(rng, 0xc100, 0xc800)
	pick := func() int { return lo + 4 + rng.Intn(hi-lo-8) }
	bc, de, hl, sp := pick(), pick(), pick(), pick()
	s[2], s[3], s[4], s[5], s[6], s[7], s[8] = bc>>8, bc&0xff, de>>8, de&0xff, hl>>8, hl&0xff, sp
	return s
}

func opBytes(op int, cb bool, b1, b2 int) []int {
	if cb {
		return []int{0xcb, op, b2}
	}
	return []int{op, b1, b2}
}

type opc struct {
	op int
	cb bool
}

func allOps() []opc {
	var out []opc
	for o := 0; o < 256; o++ {
		if !undefinedOps[o] && o != 0xcb {
			out = append(out, opc{o, false})
		}
	}
	for o := 0; o < 256; o++ {
		out = append(out, opc{o, true})
	}
	return out
}

func cpuMain(c *Ctx) {
	switch c.Mode {
	case "gen":
		cpuGen(c)
	case "rerun":
		cpuRerun(c)
	case "meta":
		cpuMeta(c)
	default:
		die("cpu: unknown mode %s", c.Mode)
	}
}

type cpuEmitter struct {
	w     *trace.Writer
	fam   string
	sc    *trace.Scenario
	n     int
	group int
}

func (e *cpuEmitter) add(ev []any) {
	if e.sc == nil {
		e.sc = &trace.Scenario{ID: fmt.Sprintf("cpu-%s-%d", e.fam, e.n), Reset: []int{}}
		e.n++
	}
	e.sc.Ev = append(e.sc.Ev, ev)
	if len(e.sc.Ev) >= e.group {
		e.flush()
	}
}

func (e *cpuEmitter) flush() {
	if e.sc != nil && len(e.sc.Ev) > 0 {
		e.w.Put(e.sc)
	}
	e.sc = nil
}

func cpuGen(c *Ctx) {
	rig := newCPURig()
	w := trace.NewWriter(c.Out, "cpu", 60000)
	em := func(fam string) *cpuEmitter { return &cpuEmitter{w: w, fam: fam, group: 25} }
	thorough := c.Thorough()
	ops := allOps()

	// draw a state satisfying the precondition
	draw := func(rng *rand.Rand, ob []int, gen func() []int) []int {
		for i := 0; i < 5000; i++ {
			s := gen()
			if okState(s, ob) {
				return s
			}
			if i%50 == 49 && ob[0] != 0xcb {
				// the operand bytes may be what violates the precondition (nn in FE00-FEFF or in the code window)
				ob[2] = rng.Intn(256)
			} else if i%50 == 49 {
				ob[2] = rng.Intn(256)
			}
		}
		panic(fmt.Sprintf("no state satisfies the precondition for % x", ob))
	}
	place := func(rng *rand.Rand, pre, ob []int) [][]int {
		var p [][]int
		for _, a := range candidates(pre, ob) {
			p = append(p, []int{a, rng.Intn(256)})
		}
		return p
	}

	if c.Want("ops") {
		rng := c.Rand(101)
		e := em("ops")
		k := 48
		if thorough {
			k = 400
		}
		for _, o := range ops {
			for i := 0; i < k; i++ {
				ob := opBytes(o.op, o.cb, rng.Intn(256), rng.Intn(256))
				lo, hi := 0xc000, 0xdd00
				if i%5 == 4 {
					lo, hi = 0xff80, 0xfff0
				}
				pre := draw(rng, ob, func() []int { return randRegs(rng, lo, hi) })
				e.add(rig.unit(pre, ob, place(rng, pre, ob)))
			}
		}
		e.flush()
	}
	if c.Want("flags") {
		// every opcode x all 16 flag nibbles: both outcomes of every condition (C02)
		rng := c.Rand(102)
		e := em("flags")
		for _, o := range ops {
			for fn := 0; fn < 16; fn++ {
				ob := opBytes(o.op, o.cb, rng.Intn(256), rng.Intn(256))
				pre := draw(rng, ob, func() []int { s := randRegs(rng, 0xc000, 0xdd00); s[1] = fn << 4; return s })
				e.add(rig.unit(pre, ob, place(rng, pre, ob)))
			}
		}
		e.flush()
	}
	if c.Want("alu") {
		// 8-bit ALU: A x operand x carry-in, register operand (B), plus samples of the immediate and (HL) forms
		rng := c.Rand(103)
		e := em("alu")
		var as, vs []int
		if thorough {
			for i := 0; i < 256; i++ {
				as = append(as, i)
				vs = append(vs, i)
			}
		} else {
			base := []int{0, 1, 0x0f, 0x10, 0x7f, 0x80, 0x99, 0x9a, 0xf0, 0xfe, 0xff}
			as = append(as, base...)
			vs = append(vs, base...)
			for len(as) < 56 {
				as = append(as, rng.Intn(256))
			}
			for len(vs) < 56 {
				vs = append(vs, rng.Intn(256))
			}
		}
		for y := 0; y < 8; y++ {
			for _, a := range as {
				for _, v := range vs {
					for cf := 0; cf < 2; cf++ {
						form := rng.Intn(8)
						var ob []int
						switch {
						case form == 0:
							ob = []int{0xc6 + 8*y, v, rng.Intn(256)} // immediate
						case form == 1:
							ob = []int{0x86 + 8*y, rng.Intn(256), rng.Intn(256)} // (HL)
						default:
							ob = []int{0x81 + 8*y, rng.Intn(256), rng.Intn(256)} // C
						}
						pre := draw(rng, ob, func() []int {
							s := regionRegs(rng, 0xd000, 0xdd00)
							s[0], s[1] = a, (rng.Intn(16)&0xe|cf)<<4
							if form >= 2 {
								s[3] = v
							}
							return s
						})
						pl := place(rng, pre, ob)
						if form == 1 {
							hl := pre[6]<<8 | pre[7]
							for _, p := range pl {
								if p[0] == hl {
									p[1] = v
								}
							}
						}
						e.add(rig.unit(pre, ob, pl))
					}
				}
			}
		}
		e.flush()
	}
	if c.Want("rot") {
		// all CB rotates/shifts x 256 values x carry (register B and (HL)); RLCA/RRCA/RLA/RRA; DAA x all flag nibbles; CPL/SCF/CCF
		rng := c.Rand(104)
		e := em("rot")
		for y := 0; y < 8; y++ {
			for v := 0; v < 256; v++ {
				for cf := 0; cf < 2; cf++ {
					z := 1
					if rng.Intn(6) == 0 {
						z = 6
					}
					ob := []int{0xcb, y*8 + z, rng.Intn(256)}
					pre := draw(rng, ob, func() []int {
						s := regionRegs(rng, 0xd000, 0xdd00)
						s[1] = (rng.Intn(16)&0xe | cf) << 4
						s[3] = v
						return s
					})
					pl := place(rng, pre, ob)
					hl := pre[6]<<8 | pre[7]
					for _, p := range pl {
						if p[0] == hl {
							p[1] = v
						}
					}
					e.add(rig.unit(pre, ob, pl))
				}
			}
		}
		for _, op := range []int{0x07, 0x0f, 0x17, 0x1f, 0x2f, 0x37, 0x3f} {
			for v := 0; v < 256; v++ {
				for fn := 0; fn < 16; fn += 1 {
					if op >= 0x2f && fn%4 != 0 && rng.Intn(4) != 0 {
						continue
					}
					ob := []int{op, rng.Intn(256), rng.Intn(256)}
					pre := draw(rng, ob, func() []int { s := randRegs(rng, 0xc000, 0xdd00); s[0], s[1] = v, fn<<4; return s })
					e.add(rig.unit(pre, ob, nil))
				}
			}
		}
		for a := 0; a < 256; a++ {
			for fn := 0; fn < 16; fn++ {
				ob := []int{0x27, rng.Intn(256), rng.Intn(256)}
				pre := draw(rng, ob, func() []int { s := randRegs(rng, 0xc000, 0xdd00); s[0], s[1] = a, fn<<4; return s })
				e.add(rig.unit(pre, ob, nil))
			}
		}
		e.flush()
	}
	if c.Want("bit") {
		// INC/DEC r and (HL) x 256; BIT/RES/SET b x 256 values (register and (HL))
		rng := c.Rand(105)
		e := em("bit")
		for _, op := range []int{0x0c, 0x0d, 0x1c, 0x1d, 0x34, 0x35, 0x3c, 0x3d, 0x2c, 0x2d} {
			for v := 0; v < 256; v++ {
				ob := []int{op, rng.Intn(256), rng.Intn(256)}
				pre := draw(rng, ob, func() []int {
					s := regionRegs(rng, 0xd000, 0xdd00)
					s[0], s[3], s[5] = v, v, v
					if op == 0x2c || op == 0x2d {
						s[7] = v
					}
					return s
				})
				pl := place(rng, pre, ob)
				hl := pre[6]<<8 | pre[7]
				for _, p := range pl {
					if p[0] == hl {
						p[1] = v
					}
				}
				e.add(rig.unit(pre, ob, pl))
			}
		}
		for x := 1; x < 4; x++ {
			for y := 0; y < 8; y++ {
				for v := 0; v < 256; v++ {
					z := []int{1, 3, 5, 6, 7}[rng.Intn(5)]
					ob := []int{0xcb, x*64 + y*8 + z, rng.Intn(256)}
					pre := draw(rng, ob, func() []int {
						s := regionRegs(rng, 0xd000, 0xdd00)
						switch z {
						case 1:
							s[3] = v
						case 3:
							s[5] = v
						case 5:
							s[7] = v
						case 7:
							s[0] = v
						}
						return s
					})
					pl := place(rng, pre, ob)
					hl := pre[6]<<8 | pre[7]
					for _, p := range pl {
						if p[0] == hl {
							p[1] = v
						}
					}
					e.add(rig.unit(pre, ob, pl))
				}
			}
		}
		e.flush()
	}
	if c.Want("sp") {
		// ADD SP,e and LD HL,SP+e: every e, SP low bytes (all in thorough), a few high bytes
		rng := c.Rand(106)
		e := em("sp")
		var lows []int
		if thorough {
			for i := 0; i < 256; i++ {
				lows = append(lows, i)
			}
		} else {
			lows = []int{0x00, 0x01, 0x0f, 0x10, 0x7f, 0x80, 0xf0, 0xff}
			for len(lows) < 40 {
				lows = append(lows, rng.Intn(256))
			}
		}
		highs := []int{0x00, 0xff}
		if thorough {
			highs = []int{0x00, 0x0f, 0x80, 0xff}
		}
		for _, op := range []int{0xe8, 0xf8} {
			for ev := 0; ev < 256; ev++ {
				for _, lo := range lows {
					hi := highs[rng.Intn(len(highs))]
					if thorough && len(highs) > 2 && rng.Intn(2) == 0 {
						hi = rng.Intn(256)
					}
					ob := []int{op, ev, rng.Intn(256)}
					pre := randRegs(rng, 0xc800, 0xcc00)
					pre[8] = hi<<8 | lo
					// these two opcodes do not access memory; keep the other pointers in plain RAM
					pre[2], pre[4], pre[6] = 0xd0, 0xd1, 0xd2
					e.add(rig.unit(pre, ob, nil))
				}
			}
		}
		e.flush()
	}
	if c.Want("w16") {
		// 16-bit INC/DEC (all values in thorough), ADD HL,rr boundary lattice + random
		rng := c.Rand(107)
		e := em("w16")
		var vals []int
		if thorough {
			for v := 0; v < 65536; v++ {
				if v < 0xfdf8 || v > 0xff07 {
					vals = append(vals, v)
				}
			}
		} else {
			vals = []int{0, 1, 0xff, 0x100, 0xfff, 0x1000, 0x7fff, 0x8000, 0xfdf7, 0xff08, 0xfffe, 0xffff}
			for len(vals) < 300 {
				v := rng.Intn(65536)
				if v < 0xfdf8 || v > 0xff07 {
					vals = append(vals, v)
				}
			}
		}
		for _, op := range []int{0x03, 0x13, 0x23, 0x33, 0x0b, 0x1b, 0x2b, 0x3b} {
			p := (op >> 4) & 3
			for _, v := range vals {
				ob := []int{op, 0x90, 0xd3}
				pre := randRegs(rng, 0xc800, 0xcc00)
				pre[2], pre[3], pre[4], pre[5], pre[6], pre[7], pre[8] = 0xd0, rng.Intn(256), 0xd1, rng.Intn(256), 0xd2, rng.Intn(256), 0xd400+rng.Intn(256)
				switch p {
				case 0:
					pre[2], pre[3] = v>>8, v&0xff
				case 1:
					pre[4], pre[5] = v>>8, v&0xff
				case 2:
					pre[6], pre[7] = v>>8, v&0xff
				case 3:
					pre[8] = v
				}
				e.add(rig.unit(pre, ob, nil))
			}
		}
		lat := []int{0, 1, 0xff, 0x100, 0xfff, 0x1000, 0x7fff, 0x8000, 0xf000, 0xffff, 0x0800, 0x0f00, 0x8fff}
		type pair struct{ a, b int }
		var pairs []pair
		for _, a := range lat {
			for _, b := range lat {
				pairs = append(pairs, pair{a, b})
			}
		}
		nr := 3000
		if thorough {
			nr = 100000
		}
		for i := 0; i < nr; i++ {
			pairs = append(pairs, pair{rng.Intn(65536), rng.Intn(65536)})
		}
		for _, pr := range pairs {
			p := rng.Intn(4)
			op := 0x09 + p*16
			ob := []int{op, 0x90, 0xd3}
			pre := randRegs(rng, 0xc800, 0xcc00)
			pre[6], pre[7] = pr.a>>8, pr.a&0xff
			switch p {
			case 0:
				pre[2], pre[3] = pr.b>>8, pr.b&0xff
			case 1:
				pre[4], pre[5] = pr.b>>8, pr.b&0xff
			case 3:
				pre[8] = pr.b
			}
			e.add(rig.unit(pre, ob, nil))
		}
		e.flush()
	}
	if c.Want("edge") {
		// boundary operand bytes and boundary pointer low bytes for every opcode (address carries, zero displacements, ...)
		rng := c.Rand(110)
		e := em("edge")
		b1s := []int{0x00, 0x01, 0x7f, 0x80, 0xfe, 0xff}
		b2s := []int{0x00, 0x01, 0x7f, 0x80, 0xc1, 0xd0, 0xff}
		for _, o := range ops {
			if o.cb {
				continue
			}
			for _, b1 := range b1s {
				for _, b2 := range b2s {
					ob := []int{o.op, b1, b2}
					pre := draw(rng, ob, func() []int { return randRegs(rng, 0xc200, 0xcf00) })
					ob[2] = b2 // draw may have re-rolled it; keep the boundary value when the state allows it
					if !okState(pre, ob) {
						continue
					}
					e.add(rig.unit(pre, ob, place(rng, pre, ob)))
				}
			}
		}
		// branches whose target is the instruction itself or one of its neighbours (idle loops such as "wait: jp wait")
		for _, op := range []int{0xc3, 0xc2, 0xca, 0xd2, 0xda, 0xcd, 0xc4, 0xcc, 0xd4, 0xdc, 0x18, 0x20, 0x28, 0x30, 0x38, 0xe9, 0xc9, 0xd9, 0xc0, 0xc8, 0xd0, 0xd8} {
			for k := -2; k <= 4; k++ {
				for _, fl := range []int{0x00, 0xf0} {
					pre := regionRegs(rng, 0xd000, 0xdd00)
					pre[1] = fl
					pc := pre[9]
					t := (pc + k) & 0xffff
					ob := []int{op, t & 0xff, t >> 8}
					var placed [][]int
					switch {
					case op&0xe7 == 0x20 || op == 0x18:
						ob[1] = (k - 2) & 0xff
						ob[2] = rng.Intn(256)
					case op == 0xe9:
						pre[6], pre[7] = t>>8, t&0xff
					case op == 0xc9 || op == 0xd9 || op&0xe7 == 0xc0:
						placed = [][]int{{pre[8], t & 0xff}, {(pre[8] + 1) & 0xffff, t >> 8}}
					}
					e.add(rig.unit(pre, ob, placed))
				}
			}
		}
		// boundary accumulator values for every opcode (a shortcut keyed on A = 00 or FF must still perform its accesses)
		for _, o := range ops {
			for _, a := range []int{0x00, 0xff} {
				for _, fl := range []int{0x00, 0xf0} {
					ob := opBytes(o.op, o.cb, rng.Intn(256), 0xd0+rng.Intn(8))
					pre := draw(rng, ob, func() []int {
						s := regionRegs(rng, 0xd000, 0xdd00)
						s[0], s[1] = a, fl
						return s
					})
					e.add(rig.unit(pre, ob, place(rng, pre, ob)))
				}
			}
		}
		lows := []int{0x00, 0x01, 0xfe, 0xff}
		for _, o := range ops {
			for _, lo := range lows {
				for rep := 0; rep < 2; rep++ {
					ob := opBytes(o.op, o.cb, rng.Intn(256), 0xd0+rng.Intn(8))
					pre := draw(rng, ob, func() []int {
						s := regionRegs(rng, 0xd000, 0xdd00)
						s[3], s[5], s[7] = lo, lo, lo
						s[8] = s[8]&0xff00 | lo
						if rep == 1 {
							// HRAM / high page for the FF00+C forms and stack wrap-around inside RAM
							s[8] = 0xff80 + rng.Intn(0x70)&0xfc | lo&3
						}
						return s
					})
					e.add(rig.unit(pre, ob, place(rng, pre, ob)))
				}
			}
		}
		e.flush()
	}
	if c.Want("dma") {
		// every opcode while an OAM DMA is under way (source in work RAM, cartridge ROM, video RAM - the same or another
		// bus as the code, which runs from work RAM)
		rng := c.Rand(114)
		e := em("dma")
		for _, o := range ops {
			for _, page := range []int{0xc1, 0x20, 0x80} {
				if !thorough && (o.op+page)%2 == 1 {
					continue
				}
				ob := opBytes(o.op, o.cb, rng.Intn(256), 0xd0+rng.Intn(8))
				pre := draw(rng, ob, func() []int { return regionRegs(rng, 0xd000, 0xdd00) })
				e.add(rig.unitOpt(pre, ob, place(rng, pre, ob), -1, page))
			}
		}
		e.flush()
	}
	if c.Want("dbg") {
		// the same instructions with the emulator's own CPU trace switched on (Config.DebugCPU): printing what an
		// instruction is about to do must not touch the bus. The trace goes to stdout, which is silenced meanwhile.
		rng := c.Rand(113)
		stdout := os.Stdout
		if null, err := os.OpenFile(os.DevNull, os.O_WRONLY, 0); err == nil {
			os.Stdout = null
			drig := newCPURigOpt(true)
			e := em("dbg")
			for _, o := range ops {
				for rep := 0; rep < 2; rep++ {
					ob := opBytes(o.op, o.cb, rng.Intn(256), 0xd0+rng.Intn(8))
					pre := draw(rng, ob, func() []int { return regionRegs(rng, 0xd000, 0xdd00) })
					e.add(drig.unit(pre, ob, place(rng, pre, ob)))
				}
			}
			os.Stdout = stdout
			null.Close()
			e.flush()
			rig = newCPURig() // the bus observer belongs to the last rig built
		}
	}
	if c.Want("keys") {
		// a key event in the middle of an instruction (after its k-th machine cycle, every k in turn)
		rng := c.Rand(112)
		e := em("keys")
		reps := 1
		if thorough {
			reps = 6
		}
		for _, o := range ops {
			for rep := 0; rep < reps; rep++ {
				for k := 0; k <= 5; k++ {
					ob := opBytes(o.op, o.cb, rng.Intn(256), 0xd0+rng.Intn(8))
					pre := draw(rng, ob, func() []int { return regionRegs(rng, 0xd000, 0xdd00) })
					e.add(rig.unitKey(pre, ob, place(rng, pre, ob), k))
				}
			}
		}
		e.flush()
	}
	if c.Want("seq") {
		// generated programs executed back to back WITHOUT resetting the CPU between instructions:
		// anything an instruction leaves behind for its successor (stale per-instruction context) shows here
		rng := c.Rand(111)
		count := 150
		if thorough {
			count = 2500
		}
		for i := 0; i < count; i++ {
			prog := genProgram(rng, 0xc100, 48)
			regs := regionRegs(rng, 0xd000, 0xdd00)
			regs[8] = 0xdf80
			regs[9] = 0xc100
			w.Put(rig.runSeq(fmt.Sprintf("cpu-seq-%d", i), regs, 0xc100, prog, rng.Int63n(1<<30), 90))
		}
	}
	if c.Want("mem") {
		// every opcode with all pointers steered into each memory region (C03: addressed location)
		rng := c.Rand(108)
		e := em("mem")
		regions := [][2]int{{0xc000, 0xde00}, {0xe000, 0xfe00}, {0xff80, 0xffff}, {0x8000, 0xa000}, {0xa000, 0xc000}, {0xff10, 0xff40}, {0x0000, 0x8000}, {0xfe00, 0xfea0}}
		k := 3
		if thorough {
			k = 16
		}
		for _, o := range ops {
			for _, rg := range regions {
				okAllowOAM = rg[0] == 0xfe00 // OAM with the LCD off (the rig's state) is plain memory, DMAs of earlier units are over
				for i := 0; i < k; i++ {
					var ob []int
					pre := draw(rng, []int{0, 0, 0}, func() []int {
						nn := rg[0] + 4 + rng.Intn(rg[1]-rg[0]-8)
						b1 := nn & 0xff
						ob = opBytes(o.op, o.cb, b1, nn>>8)
						if o.cb && rg[0] == 0xfe00 {
							ob[2] = 0xd1 // the byte after a CB instruction is not an operand: keep the formal "nn" out of FEA0-FEFF
						}
						s := regionRegs(rng, rg[0], rg[1])
						if rg[0] >= 0xff00 {
							s[3] = rg[0]&0xff + rng.Intn(rg[1]-rg[0])
							if !o.cb {
								ob[1] = rg[0]&0xff + rng.Intn(rg[1]-rg[0])
							}
						}
						if !okState(s, ob) {
							s[9] = 0
						}
						return s
					})
					e.add(rig.unit(pre, ob, place(rng, pre, ob)))
				}
			}
		}
		okAllowOAM = false
		e.flush()
	}
	if c.Want("pert") {
		// perturbation family: the harness rewrites every candidate address before each machine cycle
		rng := c.Rand(109)
		e := em("pert")
		k := 6
		if thorough {
			k = 40
		}
		for _, o := range ops {
			if o.op == 0x10 && !o.cb {
				continue
			}
			for i := 0; i < k; i++ {
				var ob []int
				lo, hi := 0xd000, 0xdd00
				if i%3 == 2 {
					lo, hi = 0xff80, 0xfff8
				}
				plain := func(a int) bool { return (a >= 0xc000 && a < 0xde00) || (a >= 0xff80 && a < 0xffff) }
				// a CB-prefixed opcode has no operand bytes: its candidates come from the registers only
				cands := func(s []int, ob []int) []int {
					if o.cb {
						return candidates(s, []int{0xcb, s[3], 0xff})
					}
					return candidates(s, ob)
				}
				pre := draw(rng, []int{0, 0, 0}, func() []int {
					nn := (lo + 4 + rng.Intn(hi-lo-8)) | 0x80
					ob = opBytes(o.op, o.cb, nn&0xff, nn>>8)
					s := regionRegs(rng, lo, hi)
					s[3] = 0x80 + rng.Intn(0x70)
					if !okState(s, ob) {
						s[9] = 0
					}
					// all candidates must be plain RAM here
					for _, a := range cands(s, ob) {
						if !plain(a) {
							s[9] = 0
						}
					}
					return s
				})
				var sched [][]any
				for _, a := range cands(pre, ob) {
					vs := make([]int, 6)
					for j := range vs {
						vs[j] = rng.Intn(256)
					}
					sched = append(sched, []any{a, vs})
				}
				e.add(rig.unitPert(pre, ob, sched))
			}
		}
		e.flush()
	}
	if c.Want("daacsv") {
		// the repository's own DAA table, row by row (validates the specification's Daa)
		e := em("daacsv")
		e.group = 64
		repo := os.Getenv("VERIF_REPO")
		if repo == "" {
			repo = "/repo"
		}
		f, err := os.Open(filepath.Join(repo, "daa.csv"))
		if err == nil {
			sc := bufio.NewScanner(f)
			for sc.Scan() {
				parts := strings.Split(strings.TrimSpace(sc.Text()), ",")
				if len(parts) != 4 {
					continue
				}
				var v [4]int
				ok := true
				for i, p := range parts {
					x, err := strconv.ParseInt(strings.TrimPrefix(p, "0x"), 16, 32)
					if err != nil {
						ok = false
					}
					v[i] = int(x)
				}
				if ok {
					e.add([]any{3, v[0], v[1], v[2], v[3]})
				}
			}
			f.Close()
		}
		e.flush()
	}
	w.Close()
}

func cpuRerun(c *Ctx) {
	scs, err := trace.ReadAll(c.In)
	if err != nil {
		die("%v", err)
	}
	rig := newCPURig()
	w := trace.NewWriter(c.Out, "cpu-rerun", 1<<30)
	stdout := os.Stdout
	null, _ := os.OpenFile(os.DevNull, os.O_WRONLY, 0)
	dbg := false
	for _, s := range scs {
		// scenarios of the dbg family ran with the CPU trace on (stdout silenced): the same again
		if want := strings.HasPrefix(s.ID, "cpu-dbg-"); want != dbg && null != nil {
			dbg = want
			rig = newCPURigOpt(dbg)
		}
		if dbg {
			os.Stdout = null
		} else {
			os.Stdout = stdout
		}
		if rm, ok := s.Reset.(map[string]any); ok && rm["seq"] != nil {
			w.Put(rig.runSeq(s.ID, trace.Ints(rm["regs"]), trace.Int(rm["base"]), trace.Ints(rm["code"]), int64(trace.Int(rm["dseed"])), trace.Int(rm["units"])))
			continue
		}
		out := &trace.Scenario{ID: s.ID, Reset: []int{}}
		for _, e := range s.Ev {
			switch trace.Int(e[0]) {
			case 1:
				// the data bytes to place are the values the recorded execution read
				var placed [][]int
				for _, p := range e[3].([]any) {
					b := trace.Ints(p)
					if b[1] == 0 {
						placed = append(placed, []int{b[2], b[3]})
					}
				}
				pre, ob := trace.Ints(e[1]), trace.Ints(e[2])
				// instruction bytes last, so that they win
				key := -1
				if len(e) > 7 {
					key = trace.Int(e[7])
				}
				dma := -1
				if len(e) > 8 {
					dma = trace.Int(e[8])
				}
				out.Ev = append(out.Ev, rig.unitOpt(pre, ob, placed, key, dma))
			case 2:
				var sched [][]any
				for _, p := range e[3].([]any) {
					pp := p.([]any)
					sched = append(sched, []any{trace.Int(pp[0]), trace.Ints(pp[1])})
				}
				out.Ev = append(out.Ev, rig.unitPert(trace.Ints(e[1]), trace.Ints(e[2]), sched))
			case 3:
				out.Ev = append(out.Ev, e)
			}
		}
		w.Put(out)
	}
	os.Stdout = stdout
	w.Close()
}

// genProgram lays out a random instruction sequence at base. Control transfers
// target the start of the following instruction (or skip one 1-byte
// instruction), 16-bit loads keep pointers in the data area, and the classes
// are weighted so that conditional transfers, CB-prefixed (HL) operations and
// memory accesses follow each other often.
func genProgram(rng *rand.Rand, base int, n int) []int {
	var code []int
	oneByte := []int{0x00, 0x04, 0x0c, 0x14, 0x1c, 0x3c, 0x3d, 0x05, 0x0d, 0x87, 0xa8, 0xb1, 0x2f, 0x37, 0x3f, 0x07, 0x17, 0x27, 0x47, 0x79}
	for i := 0; i < n; i++ {
		at := base + len(code)
		if rng.Intn(12) == 0 {
			// a CB-prefixed instruction next to the unprefixed instruction with the same opcode byte, in either order
			// (register-only ones, so that the pair is harmless anywhere): decoding must not carry over
			b := []int{0x40, 0x41, 0x47, 0x50, 0x5f, 0x78, 0x7f, 0x80, 0x87, 0x90, 0xa8, 0xb1, 0x04, 0x0c, 0x14, 0x1c, 0x3c, 0x05, 0x3d, 0x07, 0x17, 0x2f, 0x37, 0x3f}[rng.Intn(24)]
			if rng.Intn(2) == 0 {
				code = append(code, 0xcb, b, b)
			} else {
				code = append(code, b, 0xcb, b)
			}
			continue
		}
		switch r := rng.Intn(100); {
		case r < 12: // JR cc / JR with displacement 0 or skipping one 1-byte instruction
			op := []int{0x20, 0x28, 0x30, 0x38, 0x18}[rng.Intn(5)]
			if rng.Intn(2) == 0 {
				code = append(code, op, 0x00)
			} else {
				code = append(code, op, 0x01, oneByte[rng.Intn(len(oneByte))])
			}
		case r < 20: // JP cc,nn / JP nn / CALL cc,nn to the next instruction
			op := []int{0xc2, 0xca, 0xd2, 0xda, 0xc3, 0xc4, 0xcc, 0xd4, 0xdc, 0xcd}[rng.Intn(10)]
			t := at + 3
			code = append(code, op, t&0xff, t>>8)
		case r < 24: // RET cc: the stack is prefilled with the address of a NOP sled; rare
			code = append(code, []int{0xc5, 0xd5, 0xe5, 0xf5, 0xc1, 0xd1, 0xf1}[rng.Intn(7)])
		case r < 44: // CB-prefixed, (HL) forms boosted
			cb := rng.Intn(256)
			if rng.Intn(2) == 0 {
				cb = cb&0xf8 | 6
			}
			code = append(code, 0xcb, cb)
		case r < 54: // loads that keep pointers in the data area
			switch rng.Intn(4) {
			case 0:
				code = append(code, 0x21, rng.Intn(256), 0xd0+rng.Intn(12))
			case 1:
				code = append(code, 0x01, rng.Intn(256), 0xd0+rng.Intn(12))
			case 2:
				code = append(code, 0x11, rng.Intn(256), 0xd0+rng.Intn(12))
			case 3:
				code = append(code, 0x26, 0xd0+rng.Intn(12))
			}
		case r < 64: // memory through HL / BC / DE / nn / FF00+n
			op := []int{0x02, 0x0a, 0x12, 0x1a, 0x22, 0x2a, 0x32, 0x3a, 0x34, 0x35, 0x36, 0x46, 0x4e, 0x70, 0x77, 0x7e, 0x86, 0x96, 0xbe, 0xea, 0xfa, 0xe0, 0xf0, 0xe2, 0xf2, 0x08}[rng.Intn(26)]
			switch op {
			case 0x36:
				code = append(code, op, rng.Intn(256))
			case 0xea, 0xfa, 0x08:
				code = append(code, op, rng.Intn(256), 0xd0+rng.Intn(12))
			case 0xe0, 0xf0:
				code = append(code, op, 0x80+rng.Intn(0x70))
			case 0xe2, 0xf2:
				code = append(code, 0x0e, 0x80+rng.Intn(0x70), op)
			default:
				code = append(code, op)
			}
		default: // anything else that is one to two bytes long and does not move SP or PC
			for {
				op := rng.Intn(256)
				if undefinedOps[op] || op == 0x10 || op == 0x76 || op == 0xcb {
					continue
				}
				x, z, y := op>>6, op&7, (op>>3)&7
				if x == 3 && (z == 0 || z == 1 || z == 2 || z == 3 || z == 4 || z == 5 || z == 7) {
					continue // RET/POP/JP/CALL/PUSH/RST/LDH/EI/DI handled elsewhere or excluded
				}
				if x == 0 && (z == 0 || (z == 1 && y&1 == 0) || op == 0x31 || op == 0x33 || op == 0x3b || op == 0x39) {
					continue // NOP/JR/LD rr,nn/SP arithmetic
				}
				if op == 0xf9 || op == 0xe8 || op == 0xf8 || op == 0xe9 {
					continue
				}
				if x == 0 && z == 6 || x == 3 && z == 6 {
					code = append(code, op, rng.Intn(256))
				} else {
					code = append(code, op)
				}
				break
			}
		}
	}
	// EI directly in front of a conditional transfer: the instruction after EI is an instruction like any other. The run
	// ends after it (the master enable is on from there on, which is outside this family's precondition).
	if rng.Intn(2) == 0 {
		at := base + len(code) + 1
		switch rng.Intn(4) {
		case 0:
			code = append(code, 0xfb, []int{0x20, 0x28, 0x30, 0x38}[rng.Intn(4)], 0x00)
		case 1:
			code = append(code, 0xfb, []int{0xc2, 0xca, 0xd2, 0xda}[rng.Intn(4)], (at+3)&0xff, (at+3)>>8)
		case 2:
			code = append(code, 0xfb, []int{0xc4, 0xcc, 0xd4, 0xdc}[rng.Intn(4)], (at+3)&0xff, (at+3)>>8)
		default:
			code = append(code, 0xfb, []int{0xc0, 0xc8, 0xd0, 0xd8}[rng.Intn(4)])
		}
	}
	// land on a NOP sled
	for i := 0; i < 8; i++ {
		code = append(code, 0x00)
	}
	return code
}

// runSeq executes a program from regs without touching the CPU between units.
// Units whose candidate data addresses overlap their own bytes (or FE00-FEFF)
// are recorded as kind 0 (not judged).
func (r *cpuRig) runSeq(id string, regs []int, base int, code []int, dseed int64, maxUnits int) *trace.Scenario {
	m := r.m
	drng := rand.New(rand.NewSource(dseed))
	for a := 0xd000; a < 0xde00; a++ {
		r.poke(a, drng.Intn(256))
	}
	for a := 0xff80; a < 0xfffe; a++ {
		r.poke(a, drng.Intn(256))
	}
	for a := 0xc000; a < 0xc800; a++ {
		r.poke(a, 0)
	}
	for i, b := range code {
		r.poke(base+i, b)
	}
	// stack: return addresses into the NOP sled after the program
	sled := base + len(code) - 6
	for a := 0xdf00; a < 0xe000; a += 2 {
		r.poke(a, sled&0xff)
		r.poke(a+1, sled>>8)
	}
	m.M.Write(0x0000, 0x0a)
	m.I.Disable()
	m.I.WriteIE(0)
	m.I.WriteIF(0)
	m.CPU.VerifSet(regsFrom(regs))
	sc := &trace.Scenario{ID: id, Reset: map[string]any{"seq": 1, "regs": regs, "base": base, "code": code, "dseed": dseed, "units": maxUnits}}
	for u := 0; u < maxUnits; u++ {
		pre := regsOf(m.CPU.VerifGet())
		pc := pre[9]
		if pc < base || pc >= base+len(code)-3 {
			break
		}
		ob := []int{int(m.M.VerifPeek(uint16(pc))), int(m.M.VerifPeek(uint16(pc + 1))), int(m.M.VerifPeek(uint16(pc + 2)))}
		if undefinedOps[ob[0]] || ob[0] == 0x10 || ob[0] == 0x76 {
			break
		}
		if m.P.ReadLCDC()&0x80 != 0 || m.I.Enabled() {
			break // a store switched the LCD on / IME on: outside this family's precondition
		}
		r.bus = nil
		n := 0
		r.cpuOn = true
		for {
			r.cycle = n + 1
			m.CPU.ExecuteMachineCycle()
			n++
			if m.CPU.VerifAtBoundary() || n >= 12 {
				break
			}
		}
		r.cpuOn = false
		post := regsOf(m.CPU.VerifGet())
		bus := r.bus
		if bus == nil {
			bus = [][]int{}
		}
		kind := 1
		if !okState(pre, ob) {
			kind = 0
		}
		sc.Ev = append(sc.Ev, []any{kind, pre, ob, bus, post, n})
	}
	return sc
}

// cpuMeta dumps the repository's own instruction table (instruction_metadata.go: mnemonic, length, clock cycles,
// flag column) as one scenario whose events are the rows: [prefixed, opcode, length, [cycles..], [Z, N, H, C]].
// It is an independent description of the instruction set; SM83_Meta.tla cross-checks the specification against it.
func cpuMeta(c *Ctx) {
	w := trace.NewWriter(c.Out, "meta", 1<<30)
	sc := &trace.Scenario{ID: "cpu-meta", Reset: []int{}}
	for pf := 0; pf < 2; pf++ {
		for op := 0; op < 256; op++ {
			mn, length, cycles, flags, ok := cpu.VerifMetadata(pf == 1, uint8(op))
			if !ok {
				continue
			}
			sc.Ev = append(sc.Ev, []any{pf, op, length, cycles, []string{flags[0], flags[1], flags[2], flags[3]}, mn})
		}
	}
	w.Put(sc)
	w.Close()
}
