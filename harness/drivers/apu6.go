package drivers

import (
	"fmt"
	"math/rand"

	"verif/harness/machine"
	"verif/harness/trace"
)

// waveAccRun: CPU reads and writes of wave RAM while channel 3 plays (and, in between, while it is off). The position
// of the channel is read through the hook before the access; "fresh" says whether it moved during the machine cycle
// before the access. No byte and no written value is FF.
func waveAccRun(id string, seed int64) *trace.Scenario {
	rng := rand.New(rand.NewSource(seed))
	m := machine.New(intROM, machine.Options{NoCPU: true})
	f := []int{2047, 2046, 2045, 2044, 2040, 2039, 2033, 2000, 1999}[rng.Intn(9)]
	if rng.Intn(3) == 0 {
		f = 1900 + rng.Intn(148)
	}
	val := func() int { return rng.Intn(255) }
	init := make([]int, 16)
	sc := &trace.Scenario{ID: id}
	perr := machine.Try(func() {
		m.M.Write(0xff26, 0x00)
		m.M.Write(0xff26, 0x80)
		m.M.Write(0xff25, 0xff)
		m.M.Write(0xff24, 0x77)
		m.M.Write(0xff1a, 0x00)
		for i := range init {
			init[i] = val()
			m.M.Write(uint16(0xff30+i), uint8(init[i]))
		}
		start := func() {
			m.M.Write(0xff1a, 0x80)
			m.M.Write(0xff1c, 0x20)
			m.M.Write(0xff1d, uint8(f&0xff))
			m.M.Write(0xff1e, 0x80|uint8(f>>8))
			// "while the channel plays" begins with its first fetch: nothing is said about accesses between the trigger and it
			for n := 0; n < 1200 && m.A.VerifGen().WavePos == 0; n++ {
				m.Hardware()
			}
		}
		start()
		for round := 0; round < 4; round++ {
			for k := 0; k < 120; k++ {
				prev := int(m.A.VerifGen().WavePos)
				for n := 1 + rng.Intn(2*(2048-f)/4+3); n > 0; n-- {
					prev = int(m.A.VerifGen().WavePos)
					m.Hardware()
				}
				pos := int(m.A.VerifGen().WavePos)
				fresh := trace.B2I(pos != prev)
				a := rng.Intn(16)
				if rng.Intn(3) == 0 {
					v := val()
					m.M.Write(uint16(0xff30+a), uint8(v))
					sc.Ev = append(sc.Ev, []any{1, a, v, pos, fresh})
				} else {
					sc.Ev = append(sc.Ev, []any{0, a, int(m.M.Read(uint16(0xff30 + a))), pos, fresh})
				}
			}
			// channel off: the bytes are plain memory again and show what landed
			m.M.Write(0xff1a, 0x00)
			for a := 0; a < 16; a++ {
				sc.Ev = append(sc.Ev, []any{2, a, int(m.M.Read(uint16(0xff30 + a)))})
			}
			for k := rng.Intn(4); k > 0; k-- {
				a, v := rng.Intn(16), val()
				m.M.Write(uint16(0xff30+a), uint8(v))
				sc.Ev = append(sc.Ev, []any{3, a, v})
			}
			for n := rng.Intn(50); n > 0; n-- {
				m.Hardware()
			}
			start()
			sc.Ev = append(sc.Ev, []any{4})
		}
	})
	sc.Reset = []any{"waveacc", seed, f, init}
	if perr != "" {
		sc.Ev = append(sc.Ev, []any{"panic", perr})
	}
	return sc
}

func apuGenWaveAcc(c *Ctx, w *trace.Writer) {
	if !c.Want("waveacc") {
		return
	}
	rng := c.Rand(2202)
	n := 60
	if c.Thorough() {
		n = 1500
	}
	seeds := make([]int64, n)
	for i := range seeds {
		seeds[i] = rng.Int63n(1 << 40)
	}
	res := make([]*trace.Scenario, n)
	parallel(n, func(i int) { res[i] = waveAccRun(fmt.Sprintf("waveacc-%d", i), seeds[i]) })
	for _, s := range res {
		w.Put(s)
	}
}
