package drivers

import (
	"fmt"
	"math/rand"

	"github.com/scottyw/tetromino/gameboy/memory"

	"verif/harness/machine"
	"verif/harness/trace"
)

func init() { Registry["rtc"] = rtcMain }

var rtcCart = cartSpec{"mbc3", 0x10, 2, 3, true}

type rtcOp struct {
	k string
	a []int
}

// every third scenario runs on the RAM-less clock cartridge (type 0F) instead of type 10
var rtcCartNoRAM = cartSpec{"mbc3", 0x0f, 2, 0, true}

func rtcCartFor(id string) cartSpec {
	h := 0
	for _, ch := range id {
		h = h*31 + int(ch)
	}
	switch h % 4 {
	case 0:
		return rtcCartNoRAM
	case 1:
		return cartSpec{"mbc3", 0x10, 2, 4, true} // 128 KiB of RAM declared: the clock registers are still at 08-0C
	}
	return rtcCart
}

func rtcExec(id string, ops []rtcOp) *trace.Scenario {
	m := machine.New(cartImage(rtcCartFor(id)), machine.Options{NoCPU: true})
	sc := &trace.Scenario{ID: id, Reset: []int{}}
	for _, o := range ops {
		var ev []any
		perr := machine.Try(func() {
			switch o.k {
			case "w":
				m.M.Write(uint16(o.a[0]), uint8(o.a[1]))
				ev = []any{"w", o.a[0], o.a[1]}
			case "r":
				ev = []any{"r", o.a[0], int(m.M.Read(uint16(o.a[0])))}
			case "tick":
				for i := 0; i < o.a[0]; i++ {
					m.M.EndMachineCycle()
				}
				ev = []any{"tick", o.a[0]}
			case "sub":
				m.M.VerifRTCSetTicks(o.a[0])
				ev = []any{"sub", o.a[0]}
			case "set":
				v := m.M.VerifRTCGet()
				v.S, v.M, v.H, v.D, v.Carry, v.Halt, v.Ticks = uint8(o.a[0]), uint8(o.a[1]), uint8(o.a[2]), uint16(o.a[3]), o.a[4] == 1, o.a[5] == 1, o.a[6]
				m.M.VerifRTCSet(v)
				ev = []any{"set", o.a[0], o.a[1], o.a[2], o.a[3], o.a[4], o.a[5], o.a[6]}
			case "get":
				v := m.M.VerifRTCGet()
				ev = []any{"get", int(v.S), int(v.M), int(v.H), int(v.D), trace.B2I(v.Carry), trace.B2I(v.Halt)}
			}
		})
		if perr != "" {
			sc.Ev = append(sc.Ev, []any{"panic", perr})
			return sc
		}
		sc.Ev = append(sc.Ev, ev)
	}
	return sc
}

var _ = memory.VerifRTC{}

func rtcMain(c *Ctx) {
	switch c.Mode {
	case "gen":
		rtcGen(c)
	case "rerun":
		rtcRerun(c)
	default:
		die("rtc: unknown mode %s", c.Mode)
	}
}

const second = 1048576

func rtcGen(c *Ctx) {
	w := trace.NewWriter(c.Out, "rtc", 80000)
	n := 0
	emit := func(fam string, ops []rtcOp) {
		w.Put(rtcExec(fmt.Sprintf("rtc-%s-%d", fam, n), ops))
		n++
	}
	readAll := func(rng *rand.Rand) []rtcOp {
		var ops []rtcOp
		for reg := 8; reg <= 12; reg++ {
			ops = append(ops, rtcOp{"w", []int{0x4000 + rng.Intn(0x2000), reg}}, rtcOp{"r", []int{0xa000 + rng.Intn(0x2000)}})
		}
		return ops
	}
	if c.Want("step") {
		// one increment step from every counter state (thorough) / a boundary lattice (quick)
		rng := c.Rand(1001)
		var ss, hh, dd []int
		if c.Thorough() {
			for i := 0; i < 64; i++ {
				ss = append(ss, i)
			}
			for i := 0; i < 32; i++ {
				hh = append(hh, i)
			}
			dd = []int{0, 1, 254, 255, 256, 257, 510, 511}
		} else {
			ss = []int{0, 1, 30, 58, 59, 60, 62, 63}
			hh = []int{0, 12, 22, 23, 24, 31}
			dd = []int{0, 255, 256, 510, 511}
		}
		var ops []rtcOp
		flush := func() {
			if len(ops) > 0 {
				emit("step", ops)
				ops = nil
			}
		}
		add := func(s, m, h, d, cy int) {
			k := 1 + rng.Intn(3)
			ops = append(ops, rtcOp{"set", []int{s, m, h, d, cy, 0, second - k}}, rtcOp{"tick", []int{k}}, rtcOp{"get", nil})
			if len(ops) >= 60 {
				flush()
			}
		}
		for _, s := range ss {
			for _, m := range ss {
				for _, h := range hh {
					for _, d := range dd {
						add(s, m, h, d, rng.Intn(2))
					}
				}
			}
		}
		// every day value at the midnight roll-over, both carry values
		for d := 0; d < 512; d++ {
			for cy := 0; cy < 2; cy++ {
				add(59, 59, 23, d, cy)
				if c.Thorough() {
					add(59, 59, 22, d, cy)
					add(58, 59, 23, d, cy)
				}
			}
		}
		flush()
	}
	if c.Want("hist") {
		// random histories of latch / read / write / halt operations interleaved with elapsed time, through the mapper
		rng := c.Rand(1002)
		count := 300
		if c.Thorough() {
			count = 3000
		}
		for i := 0; i < count; i++ {
			ops := []rtcOp{{"w", []int{0x0000, 0x0a}}}
			for j := 0; j < 60; j++ {
				switch r := rng.Intn(16); {
				case r == 15 && j%3 == 0:
					// a halted span that is not a whole number of seconds, then the next second boundary probed to the cycle:
					// the sub-second count must neither move nor be lost while the clock is halted
					a := rng.Intn(40)
					n := 1 + rng.Intn(3000)
					ops = append(ops, rtcOp{"sub", []int{second - 1 - a}}, rtcOp{"w", []int{0x0000, 0x0a}},
						rtcOp{"w", []int{0x4000, 0x0c}}, rtcOp{"w", []int{0xa000, 0x40}}, rtcOp{"tick", []int{n}},
						rtcOp{"w", []int{0xa000, 0x00}}, rtcOp{"tick", []int{a}}, rtcOp{"get", nil}, rtcOp{"tick", []int{1}}, rtcOp{"get", nil})
				case r < 3:
					// elapsed time: a little, or just under / over a second boundary (the hook only moves the sub-second count)
					switch rng.Intn(3) {
					case 0:
						ops = append(ops, rtcOp{"tick", []int{1 + rng.Intn(50)}})
					case 1:
						ops = append(ops, rtcOp{"sub", []int{second - 1 - rng.Intn(3)}}, rtcOp{"tick", []int{1 + rng.Intn(6)}})
					case 2:
						k := 1 + rng.Intn(3)
						for q := 0; q < k; q++ {
							ops = append(ops, rtcOp{"sub", []int{second - 1}}, rtcOp{"tick", []int{1}})
						}
					}
				case r < 5:
					ops = append(ops, rtcOp{"w", []int{0x6000 + rng.Intn(0x2000), 0}})
				case r < 7:
					ops = append(ops, rtcOp{"w", []int{0x6000 + rng.Intn(0x2000), 1}})
				case r < 8:
					ops = append(ops, rtcOp{"w", []int{0x6000, 0}}, rtcOp{"w", []int{0x6000, 1}})
				case r < 11:
					ops = append(ops, readAll(rng)...)
				case r < 14:
					reg := 8 + rng.Intn(5)
					v := rng.Intn(256)
					if rng.Intn(2) == 0 {
						v = []int{59, 58, 23, 255, 0x01, 0x41, 0x80, 0xc1, 0x00, 60, 63}[rng.Intn(11)]
					}
					ops = append(ops, rtcOp{"w", []int{0x4000, reg}}, rtcOp{"w", []int{0xa000 + rng.Intn(0x2000), v}})
				case r < 15:
					ops = append(ops, rtcOp{"w", []int{rng.Intn(0x2000), []int{0x0a, 0x00, 0x0a, 0x1a}[rng.Intn(4)]}})
				default:
					ops = append(ops, rtcOp{"get", nil})
				}
			}
			ops = append(ops, rtcOp{"w", []int{0x0000, 0x0a}}, rtcOp{"w", []int{0x6000, 0}}, rtcOp{"w", []int{0x6000, 1}})
			ops = append(ops, readAll(rng)...)
			emit("hist", ops)
		}
	}
	if c.Want("real") {
		// the full 1,048,576 cycles of a second, without the hook shortening it
		count := 2
		if c.Thorough() {
			count = 12
		}
		rng := c.Rand(1003)
		for i := 0; i < count; i++ {
			ops := []rtcOp{{"w", []int{0x0000, 0x0a}}, {"tick", []int{second - 1}}, {"get", nil}, {"tick", []int{1}}, {"get", nil},
				{"tick", []int{second/2 + rng.Intn(1000)}}, {"w", []int{0x4000, 0x0c}}, {"w", []int{0xa000, 0x40}}, {"tick", []int{second + 1000 + rng.Intn(second/2)}}, {"get", nil},
				{"w", []int{0xa000, 0x00}}, {"tick", []int{second / 2}}, {"get", nil}, {"tick", []int{second / 2}}, {"get", nil}}
			emit("real", ops)
		}
	}
	w.Close()
}

func rtcRerun(c *Ctx) {
	scs, err := trace.ReadAll(c.In)
	if err != nil {
		die("%v", err)
	}
	w := trace.NewWriter(c.Out, "rtc-rerun", 1<<30)
	for _, s := range scs {
		var ops []rtcOp
		for _, e := range s.Ev {
			k := trace.Str(e[0])
			switch k {
			case "w":
				ops = append(ops, rtcOp{"w", []int{trace.Int(e[1]), trace.Int(e[2])}})
			case "r":
				ops = append(ops, rtcOp{"r", []int{trace.Int(e[1])}})
			case "tick", "sub":
				ops = append(ops, rtcOp{k, []int{trace.Int(e[1])}})
			case "set":
				ops = append(ops, rtcOp{"set", trace.Ints(e[1:])})
			case "get":
				ops = append(ops, rtcOp{"get", nil})
			}
		}
		w.Put(rtcExec(s.ID, ops))
	}
	w.Close()
}
