package drivers

import (
	"bytes"
	"context"
	"encoding/json"
	"fmt"
	"github.com/scottyw/tetromino/gameboy/controller"
	"github.com/scottyw/tetromino/gameboy/display"
	"os"
	"os/exec"
	"path/filepath"
	"strings"
	"sync"

	"github.com/scottyw/tetromino/gameboy"

	"verif/harness/machine"
	"verif/harness/trace"
)

// ---- C25: instances in one process are independent ----------------------------------------

type inst struct {
	gb     *gameboy.Gameboy
	serial *bytes.Buffer
}

func newInst(rom string) *inst { return newInstAudio(rom, false) }

func newInstAudio(rom string, audio bool) *inst { return newInstOpt(rom, audio, false) }

// noWriter: the instance is configured without a serial writer (its SB writes go nowhere - certainly not to a neighbour)
func newInstOpt(rom string, audio, noWriter bool) *inst {
	s := &bytes.Buffer{}
	cfg := gameboy.Config{RomFilename: rom, DisableVideoOutput: true, DisableAudioOutput: !audio, SerialWriter: s}
	if noWriter {
		cfg.SerialWriter = nil
	}
	return &inst{gameboy.New(cfg), s}
}

// finalDigest releases the instance's outputs and digests what its speakers received
func finalDigest(in *inst) int {
	spk := in.gb.VerifSpeakers()
	in.gb.Cleanup()
	if spk == nil {
		return 0
	}
	return digest([]byte(fmt.Sprint(spk.HashL, spk.HashR, spk.Samples, spk.Cleanups)))
}

// multiScenario: solo digests of every ROM first (one instance alive at a time), then the same ROMs as simultaneous
// instances created in the given order and stepped under the schedule: "frame" (frame-interleaved), "cycle"
// (machine-cycle-interleaved, through the reference loop), "conc" (one goroutine per instance).
func multiScenario(id string, roms []string, order []int, sched string, frames int) *trace.Scenario {
	sc := &trace.Scenario{ID: id, Reset: []any{"multi", roms, order, sched, frames}}
	perr := machine.Try(func() {
		if sched == "cycle" {
			imgs := make([][]byte, len(roms))
			for i, r := range roms {
				b, err := os.ReadFile(r)
				if err != nil {
					panic(err)
				}
				imgs[i] = b
			}
			for i := range roms {
				m := machine.New(imgs[i], machine.Options{})
				for f := 0; f < frames; f++ {
					for k := 0; k < 17556; k++ {
						m.Cycle()
					}
					sc.Ev = append(sc.Ev, []any{"solo", i, f, machineDigest(m)})
				}
			}
			ms := make([]*machine.Machine, len(roms))
			for _, i := range order {
				ms[i] = machine.New(imgs[i], machine.Options{})
			}
			for f := 0; f < frames; f++ {
				for k := 0; k < 17556; k++ {
					for _, i := range order {
						ms[i].Cycle()
					}
				}
				for i := range roms {
					sc.Ev = append(sc.Ev, []any{"multi", i, f, machineDigest(ms[i])})
				}
			}
			return
		}
		// "frame-audio": as "frame", every instance with its own (stand-in) speakers attached; each instance's outputs
		// are released at the end, in creation order, and what its speakers received is part of the comparison
		audio := sched == "frame-audio"
		// a key event for instance i before frame 1 + i%2 (what the display's key callback does: the controller is told,
		// then CPU.OnInput) - in the solo run and in the shared run alike; it concerns that instance only
		keyEvent := func(in *inst, i, f int) {
			if sched != "conc" && f == 1+i%2 {
				in.gb.VerifController().ButtonAction(controller.A, true)
				in.gb.VerifCPU().OnInput()
			}
		}
		// an instance whose frame step reports a close request is not stepped any further (as Run would do)
		closed := map[*inst]bool{}
		step := func(in *inst) {
			if !closed[in] && in.gb.VerifRunFrame(context.Background()) {
				closed[in] = true
			}
		}
		soloRuns := func() {
			for i, r := range roms {
				in := newInstOpt(r, audio, audio && i%2 == 1)
				for f := 0; f < frames; f++ {
					keyEvent(in, i, f)
					step(in)
					sc.Ev = append(sc.Ev, []any{"solo", i, f, gbDigest(in.gb, in.serial)})
				}
				if audio {
					sc.Ev = append(sc.Ev, []any{"solo", i, frames, finalDigest(in)})
				}
			}
		}
		if sched != "conc" {
			soloRuns()
		}
		ins := make([]*inst, len(roms))
		for _, i := range order {
			if sched == "conc" {
				continue // created inside the goroutines below, concurrently
			}
			ins[i] = newInstOpt(roms[i], audio, audio && i%2 == 1)
		}
		if audio {
			// a windowed emulator whose window is closed was here before: no business of anybody else's
			display.VerifCloseAfter = 1
			wnd := gameboy.New(gameboy.Config{RomFilename: roms[0], DisableVideoOutput: false, DisableAudioOutput: true, SerialWriter: &bytes.Buffer{}})
			display.VerifCloseAfter = 0
			wnd.VerifRunFrame(context.Background())
			wnd.VerifRunFrame(context.Background())
			wnd.Cleanup()
			// so was an emulator configured for the debug view of the LCD (Config.DebugLCD: other colours, a larger
			// frame buffer) - its configuration is its own
			dbg := gameboy.New(gameboy.Config{RomFilename: roms[0], DebugLCD: true, DisableVideoOutput: true, DisableAudioOutput: true, SerialWriter: &bytes.Buffer{}})
			dbg.VerifRunFrame(context.Background())
			dbg.Cleanup()
		}
		if sched == "frame" || audio {
			for f := 0; f < frames; f++ {
				// the key events of this frame first (they arrive between frames), then the frame of every instance
				for _, i := range order {
					keyEvent(ins[i], i, f)
				}
				for _, i := range order {
					step(ins[i])
				}
				for i := range roms {
					sc.Ev = append(sc.Ev, []any{"multi", i, f, gbDigest(ins[i].gb, ins[i].serial)})
				}
			}
			if audio {
				fin := make([]int, len(roms))
				for _, i := range order {
					fin[i] = finalDigest(ins[i])
				}
				for i := range roms {
					sc.Ev = append(sc.Ev, []any{"multi", i, frames, fin[i]})
				}
			}
			return
		}
		// concurrent
		res := make([][]int, len(roms))
		var wg sync.WaitGroup
		for i := range roms {
			wg.Add(1)
			go func(i int) {
				defer wg.Done()
				ins[i] = newInst(roms[i]) // creation is part of what runs concurrently
				for f := 0; f < frames; f++ {
					ins[i].gb.VerifRunFrame(context.Background())
					res[i] = append(res[i], gbDigest(ins[i].gb, ins[i].serial))
				}
			}(i)
		}
		wg.Wait()
		// in the concurrent schedule the instances are the first emulators of the process (nothing was loaded or
		// initialised before them); the solo runs they are compared with come afterwards
		soloRuns()
		for f := 0; f < frames; f++ {
			for i := range roms {
				sc.Ev = append(sc.Ev, []any{"multi", i, f, res[i][f]})
			}
		}
	})
	if perr != "" {
		sc.Ev = append(sc.Ev, []any{"panic", perr})
	}
	return sc
}

// multiInChild runs one multi-instance scenario in a child process: an emulator that stops the whole process
// (undefined opcode reached because another instance disturbed it) must become an event, not kill the driver.
func multiInChild(id string, roms []string, order []int, sched string, frames int, tmp string) *trace.Scenario {
	spec, _ := json.Marshal(map[string]any{"id": id, "roms": roms, "order": order, "sched": sched, "frames": frames})
	in := filepath.Join(tmp, id+".json")
	os.WriteFile(in, spec, 0o644)
	self, _ := os.Executable()
	cmd := exec.Command(self, "system", "multichild", "-in", in)
	cmd.Env = os.Environ()
	var out, errb bytes.Buffer
	cmd.Stdout = &out
	cmd.Stderr = &errb
	err := cmd.Run()
	text := out.String()
	if i := strings.LastIndex(text, "MULTI "); i >= 0 && err == nil {
		var sc trace.Scenario
		if json.Unmarshal([]byte(strings.TrimSpace(text[i+6:])), &sc) == nil {
			return &sc
		}
	}
	code := -1
	if ee, ok := err.(*exec.ExitError); ok {
		code = ee.ExitCode()
	}
	tail := text + errb.String()
	if i := strings.Index(tail, "WARNING: DATA RACE"); i >= 0 {
		tail = tail[i:]
		if len(tail) > 3000 {
			tail = tail[:3000]
		}
	} else if len(tail) > 1500 {
		tail = tail[len(tail)-1500:]
	}
	if strings.Contains(tail, "DATA RACE") {
		return &trace.Scenario{ID: id, Reset: []any{"multi", roms, order, sched, frames}, Ev: [][]any{{"race", tail}}}
	}
	return &trace.Scenario{ID: id, Reset: []any{"multi", roms, order, sched, frames}, Ev: [][]any{{"exit", code, tail}}}
}

// systemMultiChild: `drv system multichild -in spec.json`
func systemMultiChild(c *Ctx) {
	b, err := os.ReadFile(c.In)
	if err != nil {
		die("%v", err)
	}
	var sp struct {
		ID     string
		Roms   []string
		Order  []int
		Sched  string
		Frames int
	}
	if err := json.Unmarshal(b, &sp); err != nil {
		die("%v", err)
	}
	sc := multiScenario(sp.ID, sp.Roms, sp.Order, sp.Sched, sp.Frames)
	o, _ := json.Marshal(sc)
	fmt.Println("MULTI " + string(o))
}

func perms(n int) [][]int {
	if n == 2 {
		return [][]int{{0, 1}, {1, 0}}
	}
	return [][]int{{0, 1, 2}, {0, 2, 1}, {1, 0, 2}, {1, 2, 0}, {2, 0, 1}, {2, 1, 0}}
}

func systemGenMulti(c *Ctx, w *trace.Writer, tmp string) {
	for _, sched := range []string{"frame", "frame-audio", "cycle", "conc"} {
		if !c.Want("multi-" + sched) {
			continue
		}
		roms := romList(c, tmp, 16)
		// roms[2] and roms[10] are two different programs on the same kind of cartridge (MBC1, no RAM declared)
		// roms[14] ends in STOP (a key event wakes it - its own, which comes a frame after its neighbour's)
		// roms[12] and roms[16] are two different programs on the clock-less MBC3 cartridge that poke at the clock registers
		sets := [][]int{{2, 10}, {0, 1, 4}, {0, 14}, {12, 16}, {2, 4}, {3, 10, 6}, {0, 8}, {5, 2, 10}}
		frames := 3
		groups := 4
		if c.Thorough() {
			frames = 10
			groups = 8
		}
		n := 0
		for g := 0; g < groups; g++ {
			size := len(sets[g])
			var rs []string
			for _, k := range sets[g] {
				rs = append(rs, roms[k%len(roms)])
			}
			ps := perms(size)
			if !c.Thorough() {
				ps = ps[:2]
			}
			for _, p := range ps {
				w.Put(multiInChild(fmt.Sprintf("system-multi-%s-%d", sched, n), rs, p, sched, frames, tmp))
				n++
			}
		}
	}
}

func systemRerunMulti(c *Ctx, w *trace.Writer, s *trace.Scenario, tmp string) {
	r := s.Reset.([]any)
	if trace.Str(r[0]) != "multi" {
		return
	}
	var roms []string
	for _, x := range r[1].([]any) {
		roms = append(roms, remapGen(trace.Str(x), tmp))
	}
	w.Put(multiInChild(s.ID, roms, trace.Ints(r[2]), trace.Str(r[3]), trace.Int(r[4]), tmp))
}
