package drivers

import (
	"bufio"
	"encoding/json"
	"fmt"
	"os"
	"sort"

	"github.com/scottyw/tetromino/gameboy/controller"

	"verif/harness/machine"
	"verif/harness/trace"
)

func init() { Registry["joy"] = joyMain }

var joyKeys = []string{"Up", "Down", "Left", "Right", "A", "B", "Start", "Select"}
var joyButtons = map[string]controller.Button{
	"Up": controller.Up, "Down": controller.Down, "Left": controller.Left, "Right": controller.Right,
	"A": controller.A, "B": controller.B, "Start": controller.Start, "Select": controller.Select,
}

type joyOp struct {
	kind string // p r w
	key  string
	val  int
}

func (o joyOp) ev() []any {
	if o.kind == "w" {
		return []any{"w", o.val}
	}
	return []any{o.kind, o.key}
}

func joyApply(m *machine.Machine, o joyOp) {
	switch o.kind {
	case "p":
		m.C.ButtonAction(joyButtons[o.key], true)
	case "r":
		m.C.ButtonAction(joyButtons[o.key], false)
	case "w":
		m.M.Write(0xff00, uint8(o.val))
	}
}

// joyIdent observes the identity of the real controller's state: the read-out
// under the current select bits and under the four select patterns (which
// leaves 0x30 selected; callers re-write the select they want).
func joyIdent(m *machine.Machine) [5]int {
	var id [5]int
	id[4] = int(m.M.Read(0xff00))
	for s := 0; s < 4; s++ {
		m.M.Write(0xff00, uint8(s<<4))
		id[s] = int(m.M.Read(0xff00))
	}
	return id
}

var joyROM = machine.BlankROM(0)

func joyFresh() *machine.Machine {
	return machine.New(joyROM, machine.Options{NoCPU: true})
}

func joyAllOps(writes []int) []joyOp {
	var ops []joyOp
	for _, k := range joyKeys {
		ops = append(ops, joyOp{kind: "p", key: k}, joyOp{kind: "r", key: k})
	}
	for _, v := range writes {
		ops = append(ops, joyOp{kind: "w", val: v})
	}
	return ops
}

func joyMain(c *Ctx) {
	switch c.Mode {
	case "gen":
		joyGen(c)
	case "rerun":
		joyRerun(c)
	case "legc":
		joyLegC(c)
	default:
		die("joy: unknown mode %s", c.Mode)
	}
}

// joyGen explores the real controller breadth-first (state identity by
// observation), then walks every transition from every discovered state and
// logs it: one scenario per source state.
func joyGen(c *Ctx) {
	allWrites := make([]int, 256)
	for i := range allWrites {
		allWrites[i] = i
	}
	// Pass 1: discover the graph by path replay.
	type node struct {
		path []joyOp
	}
	ident := func(path []joyOp) [5]int {
		m := joyFresh()
		for _, o := range path {
			joyApply(m, o)
		}
		return joyIdent(m)
	}
	seen := map[[5]int]*node{}
	var order [][5]int
	start := ident(nil)
	seen[start] = &node{}
	order = append(order, start)
	expl := joyAllOps([]int{0x00, 0x10, 0x20, 0x30})
	for i := 0; i < len(order); i++ {
		n := seen[order[i]]
		for _, o := range expl {
			p := append(append([]joyOp{}, n.path...), o)
			id := ident(p)
			if _, ok := seen[id]; !ok {
				seen[id] = &node{path: p}
				order = append(order, id)
			}
		}
	}
	// Pass 2: from every state, every action, logged.
	rng := c.Rand(22)
	w := trace.NewWriter(c.Out, "joy", 60000)
	transitions := 0
	for si, id := range order {
		n := seen[id]
		writes := allWrites
		if !c.Thorough() {
			// quick: the four canonical selects, 12 seeded values
			writes = []int{0x00, 0x10, 0x20, 0x30}
			have := map[int]bool{0x00: true, 0x10: true, 0x20: true, 0x30: true}
			for len(writes) < 16 {
				v := rng.Intn(256)
				if !have[v] {
					have[v] = true
					writes = append(writes, v)
				}
			}
		}
		ops := joyAllOps(writes)
		sc := &trace.Scenario{ID: fmt.Sprintf("joy-s%03d", si), Reset: []int{}}
		// one scenario per transition: fresh controller, path to the source state, the action, then the read-outs
		for _, o := range ops {
			m := joyFresh()
			seg := [][]any{}
			for _, po := range n.path {
				joyApply(m, po)
				seg = append(seg, po.ev())
			}
			seg = append(seg, []any{"rd", int(m.M.Read(0xff00))})
			joyApply(m, o)
			seg = append(seg, o.ev())
			seg = append(seg, []any{"rd", int(m.M.Read(0xff00))})
			for s := 0; s < 4; s++ {
				m.M.Write(0xff00, uint8(s<<4))
				seg = append(seg, []any{"w", s << 4}, []any{"rd", int(m.M.Read(0xff00))})
			}
			one := &trace.Scenario{ID: fmt.Sprintf("%s-%s%s%d", sc.ID, o.kind, o.key, o.val), Reset: []int{}, Ev: seg}
			w.Put(one)
			transitions++
		}
	}
	// Histories: the observable state does not identify the controller's internal state if it keeps more than it shows
	// (an event filter, a latch): every sequence of up to 5 press / release events on one axis, and random walks over
	// all keys and select writes, a read-out after every step.
	readAll := func(m *machine.Machine, seg [][]any) [][]any {
		for s := 0; s < 4; s++ {
			m.M.Write(0xff00, uint8(s<<4))
			seg = append(seg, []any{"w", s << 4}, []any{"rd", int(m.M.Read(0xff00))})
		}
		return seg
	}
	nh := 0
	for _, axis := range [][2]string{{"Up", "Down"}, {"Left", "Right"}} {
		alpha := []joyOp{{kind: "p", key: axis[0]}, {kind: "p", key: axis[1]}, {kind: "r", key: axis[0]}, {kind: "r", key: axis[1]}}
		for length := 3; length <= 5; length++ {
			total := 1
			for i := 0; i < length; i++ {
				total *= 4
			}
			for code := 0; code < total; code++ {
				m := joyFresh()
				seg := [][]any{{"rd", int(m.M.Read(0xff00))}}
				x := code
				for i := 0; i < length; i++ {
					o := alpha[x%4]
					x /= 4
					joyApply(m, o)
					seg = append(seg, o.ev())
					if i >= length-2 {
						seg = readAll(m, seg)
					}
				}
				w.Put(&trace.Scenario{ID: fmt.Sprintf("joy-hist-%d", nh), Reset: []int{}, Ev: seg})
				nh++
			}
		}
	}
	walks := 200
	if c.Thorough() {
		walks = 4000
	}
	for i := 0; i < walks; i++ {
		m := joyFresh()
		seg := [][]any{}
		if i%2 == 0 {
			seg = append(seg, []any{"rd", int(m.M.Read(0xff00))}) // before anything was written
		}
		for j := 0; j < 60; j++ {
			var o joyOp
			switch r := rng.Intn(10); {
			case r < 4:
				o = joyOp{kind: "p", key: joyKeys[rng.Intn(8)]}
			case r < 7:
				o = joyOp{kind: "r", key: joyKeys[rng.Intn(8)]}
			default:
				o = joyOp{kind: "w", val: rng.Intn(256)}
			}
			joyApply(m, o)
			seg = append(seg, o.ev(), []any{"rd", int(m.M.Read(0xff00))})
			if rng.Intn(6) == 0 {
				seg = readAll(m, seg)
			}
		}
		w.Put(&trace.Scenario{ID: fmt.Sprintf("joy-walk-%d", i), Reset: []int{}, Ev: seg})
	}
	w.Close()
	info := map[string]any{"impl_states": len(order), "impl_transitions": transitions}
	b, _ := json.Marshal(info)
	fmt.Println("INFO " + string(b))
}

// joyRerun re-executes the inputs of recorded scenarios on fresh controllers.
func joyRerun(c *Ctx) {
	scs, err := trace.ReadAll(c.In)
	if err != nil {
		die("%v", err)
	}
	w := trace.NewWriter(c.Out, "joy-rerun", 1<<30)
	for _, s := range scs {
		m := joyFresh()
		out := &trace.Scenario{ID: s.ID, Reset: []int{}}
		for _, e := range s.Ev {
			switch trace.Str(e[0]) {
			case "p", "r":
				joyApply(m, joyOp{kind: trace.Str(e[0]), key: trace.Str(e[1])})
				out.Ev = append(out.Ev, []any{e[0], e[1]})
			case "w":
				joyApply(m, joyOp{kind: "w", val: trace.Int(e[1])})
				out.Ev = append(out.Ev, []any{"w", trace.Int(e[1])})
			case "rd":
				out.Ev = append(out.Ev, []any{"rd", int(m.M.Read(0xff00))})
			}
		}
		w.Put(out)
	}
	w.Close()
}

// joyLegC replays TLC-emitted tests: {"sel":s,"held":[8 flags in joyKeys order],"act":"p|r|w","arg":n,"exp":[...]}
func joyLegC(c *Ctx) {
	f, err := os.Open(c.In)
	if err != nil {
		die("%v", err)
	}
	defer f.Close()
	out, err := os.Create(c.Out)
	if err != nil {
		die("%v", err)
	}
	defer out.Close()
	bw := bufio.NewWriter(out)
	defer bw.Flush()
	type test struct {
		Sel  int    `json:"sel"`
		Held []int  `json:"held"`
		Act  string `json:"act"`
		Arg  int    `json:"arg"`
		Exp  []int  `json:"exp"`
	}
	sc := bufio.NewScanner(f)
	sc.Buffer(make([]byte, 1<<20), 1<<26)
	var tests []test
	for sc.Scan() {
		var t test
		if err := json.Unmarshal(sc.Bytes(), &t); err != nil {
			die("legc: %v", err)
		}
		tests = append(tests, t)
	}
	n, bad := len(tests), 0
	srcStates := map[string]bool{}
	results := make([][]byte, len(tests))
	parallel(len(tests), func(i int) {
		t := tests[i]
		m := joyFresh()
		var script [][]any
		// canonical path to the source state: press the held keys, write the select bits
		for i, h := range t.Held {
			if h == 1 {
				joyApply(m, joyOp{kind: "p", key: joyKeys[i]})
				script = append(script, []any{"p", joyKeys[i]})
			}
		}
		m.M.Write(0xff00, uint8(t.Sel<<4))
		script = append(script, []any{"w", t.Sel << 4})
		var got []int
		switch t.Act {
		case "p", "r":
			k := joyKeys[t.Arg-1]
			joyApply(m, joyOp{kind: t.Act, key: k})
			script = append(script, []any{t.Act, k})
			for s := 0; s < 4; s++ {
				m.M.Write(0xff00, uint8(s<<4))
				got = append(got, int(m.M.Read(0xff00)))
			}
		case "w":
			m.M.Write(0xff00, uint8(t.Arg))
			script = append(script, []any{"w", t.Arg})
			got = append(got, int(m.M.Read(0xff00)))
		}
		same := len(got) == len(t.Exp)
		for i := 0; same && i < len(got); i++ {
			same = got[i] == t.Exp[i]
		}
		if !same {
			results[i], _ = json.Marshal(map[string]any{"test": t, "got": got, "script": script})
		}
	})
	for i, t := range tests {
		srcStates[fmt.Sprint(t.Sel, t.Held)] = true
		if results[i] != nil {
			bad++
			bw.Write(results[i])
			bw.WriteByte('\n')
		}
	}
	keys := make([]string, 0, len(srcStates))
	for k := range srcStates {
		keys = append(keys, k)
	}
	sort.Strings(keys)
	b, _ := json.Marshal(map[string]any{"tests": n, "mismatches": bad, "source_states": len(keys)})
	fmt.Println("LEGC " + string(b))
}
