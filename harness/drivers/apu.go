package drivers

import (
	"fmt"
	"math/rand"

	"verif/harness/machine"
	"verif/harness/trace"
)

func init() { Registry["apu"] = apuMain }

type apuOp struct {
	k string
	a int
	v int
}

// apuExec runs bus-level operations on a machine (sound through the Mapper), one event per operation.
// obs selects what is observed after ticks: "nr52" logs NR52 after every machine cycle run-length compressed.
func apuExec(id string, fam string, seed int64, ops []apuOp) *trace.Scenario {
	m := machine.New(intROM, machine.Options{NoCPU: true})
	sc := &trace.Scenario{ID: id, Reset: []any{fam, seed}}
	perr := machine.Try(func() {
		for _, o := range ops {
			switch o.k {
			case "w":
				if o.a >= 0xff30 && o.a <= 0xff3f {
					n := int(m.M.Read(0xff26))
					m.M.Write(uint16(o.a), uint8(o.v))
					sc.Ev = append(sc.Ev, []any{"ww", o.a, o.v, n})
				} else {
					m.M.Write(uint16(o.a), uint8(o.v))
					sc.Ev = append(sc.Ev, []any{"w", o.a, o.v})
				}
			case "r":
				if o.a >= 0xff30 && o.a <= 0xff3f {
					n := int(m.M.Read(0xff26))
					sc.Ev = append(sc.Ev, []any{"rw", o.a, int(m.M.Read(uint16(o.a))), n})
				} else {
					sc.Ev = append(sc.Ev, []any{"r", o.a, int(m.M.Read(uint16(o.a)))})
				}
			case "tick":
				for i := 0; i < o.a; i++ {
					m.Hardware()
				}
				sc.Ev = append(sc.Ev, []any{"tick", o.a})
			}
		}
	})
	if perr != "" {
		sc.Ev = append(sc.Ev, []any{"panic", perr})
	}
	return sc
}

var apuRegs = []int{0xff10, 0xff11, 0xff12, 0xff13, 0xff14, 0xff16, 0xff17, 0xff18, 0xff19, 0xff1a, 0xff1b, 0xff1c, 0xff1d, 0xff1e, 0xff20, 0xff21, 0xff22, 0xff23, 0xff24, 0xff25}

func apuReadAll(ops []apuOp, rng *rand.Rand) []apuOp {
	for a := 0xff10; a <= 0xff2f; a++ {
		ops = append(ops, apuOp{"r", a, 0})
	}
	for i := 0; i < 4; i++ {
		ops = append(ops, apuOp{"r", 0xff30 + rng.Intn(16), 0})
	}
	return ops
}

func apuMain(c *Ctx) {
	w := trace.NewWriter(c.Out, "apu", 80000)
	if c.Mode == "rerun" {
		scs, err := trace.ReadAll(c.In)
		if err != nil {
			die("%v", err)
		}
		for _, s := range scs {
			r := s.Reset.([]any)
			if _, isStr := r[0].(string); !isStr {
				apuRerunStream(c, w, s) // sample-stream scenarios start with the attached flag
				continue
			}
			fam := trace.Str(r[0])
			switch fam {
			case "regs", "single":
				var ops []apuOp
				for _, e := range s.Ev {
					switch trace.Str(e[0]) {
					case "w", "ww":
						ops = append(ops, apuOp{"w", trace.Int(e[1]), trace.Int(e[2])})
					case "r", "rw":
						ops = append(ops, apuOp{"r", trace.Int(e[1]), 0})
					case "tick":
						ops = append(ops, apuOp{"tick", trace.Int(e[1]), 0})
					}
				}
				w.Put(apuExec(s.ID, fam, int64(trace.Int(r[1])), ops))
			default:
				apuRerunOther(c, w, s)
			}
		}
		w.Close()
		return
	}
	if c.Want("regs") {
		// random sequences of writes of arbitrary values to FF10-FF3F and NR52 power toggles interleaved with machine cycles
		rng := c.Rand(1801)
		count := 60
		if c.Thorough() {
			count = 2000
		}
		for i := 0; i < count; i++ {
			var ops []apuOp
			for j := 0; j < 40; j++ {
				switch r := rng.Intn(20); {
				case r < 11:
					a := apuRegs[rng.Intn(len(apuRegs))]
					ops = append(ops, apuOp{"w", a, rng.Intn(256)})
					if rng.Intn(3) == 0 {
						ops = append(ops, apuOp{"r", a, 0})
					}
				case r < 13:
					ops = append(ops, apuOp{"w", 0xff26, []int{0x00, 0x80, 0xff, 0x7f, 0x8f}[rng.Intn(5)]})
				case r < 15:
					ops = append(ops, apuOp{"w", 0xff30 + rng.Intn(16), rng.Intn(256)})
				case r < 17:
					ops = append(ops, apuOp{"tick", 1 + rng.Intn(3000), 0})
				default:
					ops = apuReadAll(ops, rng)
				}
			}
			ops = apuReadAll(ops, rng)
			w.Put(apuExec(fmt.Sprintf("apu-regs-%d", i), "regs", 0, ops))
		}
	}
	if c.Want("single") {
		// every register x every value, written with sound on and with sound off, read back at once
		for _, off := range []bool{false, true} {
			for _, a := range apuRegs {
				var ops []apuOp
				if off {
					ops = append(ops, apuOp{"w", 0xff26, 0x00})
				} else {
					ops = append(ops, apuOp{"w", 0xff26, 0x80})
				}
				step := 1
				if !c.Thorough() {
					step = 3
				}
				for v := 0; v < 256; v += step {
					ops = append(ops, apuOp{"w", a, v}, apuOp{"r", a, 0})
				}
				w.Put(apuExec(fmt.Sprintf("apu-single-%04x-%v", a, off), "single", 0, ops))
			}
		}
	}
	apuGenOther(c, w)
	w.Close()
}
