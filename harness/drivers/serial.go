package drivers

import (
	"fmt"
	"math/rand"
	"os"
	"path/filepath"
	"strings"

	"github.com/scottyw/tetromino/gameboy/memory"

	"verif/harness/machine"
	"verif/harness/trace"
)

func init() { Registry["serial"] = serialMain }

func serialMain(c *Ctx) {
	switch c.Mode {
	case "gen", "rerun":
		serialGen(c)
	default:
		die("serial: unknown mode %s", c.Mode)
	}
}

func outOf(m *machine.Machine) []int {
	o := []int{}
	if m.Serial != nil {
		for _, b := range m.Serial.Bytes() {
			o = append(o, int(b))
		}
	}
	return o
}

// serialBus: random bus-level writes/reads on the I/O page with the hardware ticking.
func serialBus(id string, seed int64, writer bool) *trace.Scenario {
	rng := rand.New(rand.NewSource(seed))
	m := machine.New(intROM, machine.Options{NoCPU: true, NoSerial: !writer})
	sc := &trace.Scenario{ID: id, Reset: []any{trace.B2I(writer), "bus", seed}}
	lastSB := 0x53
	steps := 300
	long := strings.HasPrefix(id, "serial-long")
	if long {
		steps = 120000 // more than 65,536 bytes through the port of one emulator
	}
	for i := 0; i < steps; i++ {
		if long && i%2000 == 1999 && m.Serial != nil {
			// compared piece by piece: the transcript so far is logged, then the harness's buffer is emptied
			sc.Ev = append(sc.Ev, []any{"out", outOf(m)}, []any{"cut"})
			m.Serial.Reset()
		}
		a := []int{0xff01, 0xff01, 0xff02, 0xff00, 0xff03, 0xff0f, 0xff10 + rng.Intn(0x30), 0xff80 + rng.Intn(0x7f), 0xc000 + rng.Intn(0x100), 0xff40 + rng.Intn(12)}[rng.Intn(10)]
		if long && rng.Intn(5) > 0 {
			a = 0xff01 // the long run is mostly SB writes
		}
		if a == 0xff46 && rng.Intn(3) > 0 {
			a = 0xff01 // an OAM DMA is "other I/O" too, but keep it occasional
		}
		if rng.Intn(4) == 0 {
			sc.Ev = append(sc.Ev, []any{"r", a, int(m.M.Read(uint16(a)))})
		} else {
			v := rng.Intn(256)
			if a == 0xff01 && rng.Intn(3) == 0 {
				v = lastSB // the same byte again (with or without an SC write in between): delivered again
			}
			if a == 0xff01 {
				lastSB = v
			}
			if a == 0xff02 && rng.Intn(2) == 0 {
				v = []int{0x81, 0x80, 0x01, 0x83, 0xff, 0x00}[rng.Intn(6)] // transfer-start patterns
			}
			m.M.Write(uint16(a), uint8(v))
			sc.Ev = append(sc.Ev, []any{"w", a, v})
			if a == 0xff02 && !long && rng.Intn(3) == 0 {
				// nothing is on the other end of the cable: however long the program waits after starting a
				// transfer, SC and SB read what they read before
				for k := 1000 + rng.Intn(3500); k > 0; k-- {
					m.Hardware()
				}
				sc.Ev = append(sc.Ev, []any{"r", 0xff02, int(m.M.Read(0xff02))}, []any{"r", 0xff01, int(m.M.Read(0xff01))})
			}
		}
		for k := rng.Intn(3); k > 0; k-- {
			m.Hardware()
		}
		if rng.Intn(25) == 0 {
			sc.Ev = append(sc.Ev, []any{"out", outOf(m)})
		}
	}
	sc.Ev = append(sc.Ev, []any{"out", outOf(m)})
	return sc
}

// serialProg: a generated program writing random bytes to SB/SC between other I/O, run on the full machine;
// the bus hook logs what the CPU wrote.
func serialProg(id string, seed int64, writer bool) *trace.Scenario {
	rng := rand.New(rand.NewSource(seed))
	m := machine.New(intROM, machine.Options{NoSerial: !writer})
	sc := &trace.Scenario{ID: id, Reset: []any{trace.B2I(writer), "prog", seed}}
	var code []int
	for len(code) < 600 {
		switch rng.Intn(9) {
		case 0, 1:
			code = append(code, 0x3e, rng.Intn(256), 0xe0, 0x01)
		case 2:
			// a run of the same byte: LD A,n; LDH (01),A two to four times
			code = append(code, 0x3e, rng.Intn(256))
			for k := 2 + rng.Intn(3); k > 0; k-- {
				code = append(code, 0xe0, 0x01)
			}
		case 3:
			code = append(code, 0x3e, []int{0x81, 0x80, 0x01, rng.Intn(256)}[rng.Intn(4)], 0xe0, 0x02)
		case 4:
			code = append(code, 0xf0, []int{0x01, 0x02}[rng.Intn(2)])
		case 5:
			code = append(code, 0x3e, rng.Intn(256), 0xe0, []int{0x00, 0x03, 0x06, 0x42, 0x43, 0x80 + rng.Intn(0x70)}[rng.Intn(6)])
		case 6:
			code = append(code, 0x0e, 0x01, 0x3e, rng.Intn(256), 0xe2) // LD C,01; LD A,n; LD (FF00+C),A
		case 7:
			if rng.Intn(3) == 0 {
				code = append(code, 0x3e, 0xc0+rng.Intn(0x1f), 0xe0, 0x46) // start an OAM DMA from work RAM
			} else {
				code = append(code, 0x21, 0x01, 0xff, 0x36, rng.Intn(256))
			}
		default:
			code = append(code, 0x21, 0x01, 0xff, 0x36, rng.Intn(256)) // LD HL,FF01; LD (HL),n
		}
	}
	code = append(code, 0x18, 0xfe) // JR -2
	for i, b := range code {
		m.M.Write(uint16(0xc000+i), uint8(b))
	}
	on := false
	memory.VerifBusObserver = func(mm *memory.Mapper, write bool, addr uint16, value uint8) {
		if !on || mm != m.M {
			return
		}
		if write {
			sc.Ev = append(sc.Ev, []any{"w", int(addr), int(value)})
		} else if addr == 0xff01 || addr == 0xff02 {
			sc.Ev = append(sc.Ev, []any{"r", int(addr), int(mm.VerifPeek(addr))})
		}
	}
	r := m.CPU.VerifGet()
	r.PC, r.SP = 0xc000, 0xdff0
	m.CPU.VerifSet(r)
	m.I.Disable()
	on = true
	for i := 0; i < 2600; i++ {
		m.Cycle()
		if i%500 == 499 {
			sc.Ev = append(sc.Ev, []any{"out", outOf(m)})
		}
	}
	on = false
	memory.VerifBusObserver = nil
	sc.Ev = append(sc.Ev, []any{"out", outOf(m)})
	return sc
}

// serialROM: one of the repository's test ROMs on the full machine; every CPU write is logged by the bus hook and the
// transcript the writer received is compared with the SB writes.
func serialROM(id, rom string, cycles int) *trace.Scenario {
	sc := &trace.Scenario{ID: id, Reset: []any{1, "rom", rom, cycles}}
	perr := machine.Try(func() {
		img, err := os.ReadFile(rom)
		if err != nil {
			panic(err)
		}
		m := machine.New(img, machine.Options{})
		on := true
		memory.VerifBusObserver = func(mm *memory.Mapper, write bool, addr uint16, value uint8) {
			if !on || mm != m.M {
				return
			}
			if write && addr >= 0xff00 && addr < 0xff80 {
				sc.Ev = append(sc.Ev, []any{"w", int(addr), int(value)})
			} else if !write && (addr == 0xff01 || addr == 0xff02) {
				sc.Ev = append(sc.Ev, []any{"r", int(addr), int(mm.VerifPeek(addr))})
			}
		}
		defer func() { memory.VerifBusObserver = nil }()
		for i := 0; i < cycles; i++ {
			m.Cycle()
			if i%200000 == 199999 {
				sc.Ev = append(sc.Ev, []any{"out", outOf(m)})
			}
		}
		on = false
		sc.Ev = append(sc.Ev, []any{"out", outOf(m)})
	})
	if perr != "" {
		sc.Ev = append(sc.Ev, []any{"panic", perr})
	}
	return sc
}

func serialGen(c *Ctx) {
	w := trace.NewWriter(c.Out, "serial", 60000)
	if c.Mode == "rerun" {
		scs, err := trace.ReadAll(c.In)
		if err != nil {
			die("%v", err)
		}
		for _, s := range scs {
			r := s.Reset.([]any)
			if trace.Str(r[1]) == "rom" {
				w.Put(serialROM(s.ID, trace.Str(r[2]), trace.Int(r[3])))
			} else if trace.Str(r[1]) == "bus" {
				w.Put(serialBus(s.ID, int64(trace.Int(r[2])), trace.Int(r[0]) == 1))
			} else {
				w.Put(serialProg(s.ID, int64(trace.Int(r[2])), trace.Int(r[0]) == 1))
			}
		}
		w.Close()
		return
	}
	rng := c.Rand(2301)
	count := 40
	if c.Thorough() {
		count = 2400
	}
	for i := 0; i < count; i++ {
		w.Put(serialBus(fmt.Sprintf("serial-bus-%d", i), rng.Int63n(1<<40), i%4 != 3))
		w.Put(serialProg(fmt.Sprintf("serial-prog-%d", i), rng.Int63n(1<<40), i%4 != 2))
	}
	w.Put(serialBus("serial-long-0", rng.Int63n(1<<40), true))
	// the blargg ROMs print their report on the serial port
	base := filepath.Join(repoDir(), "gameboy", "testdata", "blargg")
	roms := []string{"cpu_instrs/individual/06-ld r,r.gb", "cpu_instrs/individual/01-special.gb", "instr_timing/instr_timing.gb", "cpu_instrs/individual/03-op sp,hl.gb",
		"cpu_instrs/individual/05-op rp.gb", "mem_timing/individual/01-read_timing.gb", "cpu_instrs/individual/02-interrupts.gb", "cpu_instrs/individual/08-misc instrs.gb"}
	nr, cyc := 2, 1200000
	if c.Thorough() {
		nr, cyc = len(roms), 6000000
	}
	for i := 0; i < nr; i++ {
		p := filepath.Join(base, roms[(i+int(c.Seed))%len(roms)])
		if _, err := os.Stat(p); err == nil {
			w.Put(serialROM(fmt.Sprintf("serial-rom-%d", i), p, cyc))
		}
	}
	w.Close()
}
