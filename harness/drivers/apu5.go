package drivers

import (
	"fmt"
	"math/rand"

	"verif/harness/machine"
	"verif/harness/trace"
)

// envRun: the volume envelope of channel ch (0, 1 or 3) after a power cycle: NRx2 written and the channel triggered
// (once or several times), the volume logged whenever it changes. Everything is derived from the seed.
func envRun(id string, ch int, seed int64, cycles int) *trace.Scenario {
	rng := rand.New(rand.NewSource(seed))
	m := machine.New(intROM, machine.Options{NoCPU: true})
	sc := &trace.Scenario{ID: id, Reset: []any{"env", ch, seed, cycles}}
	base := []int{0xff10, 0xff15, 0, 0xff1f}[ch]
	perr := machine.Try(func() {
		m.M.Write(0xff26, 0x00)
		m.M.Write(0xff26, 0x80)
		m.M.Write(0xff25, 0xff)
		m.M.Write(0xff24, 0x77)
		if ch == 0 {
			m.M.Write(0xff10, 0x00)
		}
		// triggers at random times: the first soon, later ones while the envelope is under way or after it has saturated
		type trig struct{ at, v int }
		var trigs []trig
		at := rng.Intn(40000)
		for at < cycles-1000 {
			v := rng.Intn(256) | 0x08*rng.Intn(2)
			if v&0xf8 == 0 {
				v |= 0x10 // keep the DAC on
			}
			if rng.Intn(4) == 0 {
				v = []int{0x08, 0xf0, 0xf1, 0x0f, 0x19, 0xf7, 0x07 | 0x10, 0xff}[rng.Intn(8)]
			}
			trigs = append(trigs, trig{at, v})
			p := v & 7
			if p == 0 {
				p = 1
			}
			at += 16384*p*(1+rng.Intn(17)) + rng.Intn(16384)
		}
		prev := int(m.A.VerifGen().Vol[ch])
		k := 0
		for c := 1; c <= cycles; c++ {
			for k < len(trigs) && trigs[k].at < c {
				m.M.Write(uint16(base+2), uint8(trigs[k].v))
				m.M.Write(uint16(base+3), uint8(rng.Intn(256)))
				m.M.Write(uint16(base+4), 0x80|uint8(rng.Intn(8)))
				sc.Ev = append(sc.Ev, []any{"trig", c - 1, trigs[k].v})
				prev = int(m.A.VerifGen().Vol[ch])
				k++
			}
			m.Hardware()
			if v := int(m.A.VerifGen().Vol[ch]); v != prev {
				sc.Ev = append(sc.Ev, []any{"v", c, v})
				prev = v
			}
		}
		sc.Ev = append(sc.Ev, []any{"end", cycles})
	})
	if perr != "" {
		sc.Ev = append(sc.Ev, []any{"panic", perr})
	}
	return sc
}

func apuGenEnv(c *Ctx, w *trace.Writer) {
	if !c.Want("env") {
		return
	}
	rng := c.Rand(2201)
	n, cycles := 8, 1500000
	if c.Thorough() {
		n, cycles = 60, 4000000
	}
	type job struct {
		id   string
		ch   int
		seed int64
	}
	var jobs []job
	for _, ch := range []int{0, 1, 3} {
		for i := 0; i < n; i++ {
			jobs = append(jobs, job{fmt.Sprintf("env-ch%d-%d", ch+1, i), ch, rng.Int63n(1 << 40)})
		}
	}
	res := make([]*trace.Scenario, len(jobs))
	parallel(len(jobs), func(i int) { res[i] = envRun(jobs[i].id, jobs[i].ch, jobs[i].seed, cycles) })
	for _, s := range res {
		w.Put(s)
	}
}
