// Package drivers holds one driver per hardware block. Drivers are
// deliberately dumb: they enumerate or randomise inputs, call the real code
// and record what it returned. They never compute an expected value; the
// interpretation lives in the TLA+ specification.
package drivers

import (
	"fmt"
	"math/rand"
	"os"
	"runtime"
	"sync"
)

// parallel runs f(0..n-1) on all cores. Only for work that does not touch the
// cpu package's package-level dispatch tables.
func parallel(n int, f func(i int)) {
	w := runtime.NumCPU()
	if w > n {
		w = n
	}
	if w < 1 {
		w = 1
	}
	var wg sync.WaitGroup
	for k := 0; k < w; k++ {
		wg.Add(1)
		go func(k int) {
			defer wg.Done()
			for i := k; i < n; i += w {
				f(i)
			}
		}(k)
	}
	wg.Wait()
}

// Ctx carries the command line.
type Ctx struct {
	Mode   string
	Tier   string
	Seed   int64
	Out    string
	In     string
	Fam    string
	Shard  int
	Shards int
}

func (c *Ctx) Thorough() bool { return c.Tier == "thorough" }

func (c *Ctx) Rand(salt int64) *rand.Rand {
	return rand.New(rand.NewSource(c.Seed*1000003 + salt))
}

func (c *Ctx) Want(fam string) bool { return c.Fam == "" || c.Fam == fam }

// Registry maps block names to drivers.
var Registry = map[string]func(*Ctx){}

func die(format string, a ...any) {
	fmt.Fprintf(os.Stderr, format+"\n", a...)
	os.Exit(2)
}
