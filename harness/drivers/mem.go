package drivers

import (
	"fmt"
	"math/rand"
	"sync"

	"verif/harness/machine"
	"verif/harness/trace"
)

func init() { Registry["mem"] = memMain }

var memCart = cartSpec{"mbc1", 0x03, 1, 3, false}

type memOp struct {
	k string
	a int
	v int
}

// memMachine builds a machine in one of the start states: power-on (LCD
// on), LCD off, or "randomised": a random program has run for a while, the
// sound and video registers hold random values, then the LCD is switched off.
func memMachine(mode string, seed int64) *machine.Machine {
	m := machine.New(cartImage(memCart), machine.Options{NoCPU: true})
	switch mode {
	case "poweron":
		// the CPU's first machine cycle is the opcode fetch at 0100: the PPU has ticked before any access that could reach OAM
		m.Hardware()
	case "lcdoff":
		m.QuietLCD()
	case "lcdoff2":
		offInScan(m, rand.New(rand.NewSource(seed)))
	case "random":
		rng := rand.New(rand.NewSource(seed))
		for i := 0; i < 300; i++ {
			a := []int{0xff10 + rng.Intn(0x30), 0xff40 + rng.Intn(12), 0xff05 + rng.Intn(3), 0xc000 + rng.Intn(0x2000), 0x8000 + rng.Intn(0x2000), 0xff80 + rng.Intn(0x7f), 0x0000 + rng.Intn(0x8000), 0xa000 + rng.Intn(0x2000)}[rng.Intn(8)]
			if a == 0xff46 {
				continue
			}
			m.M.Write(uint16(a), uint8(rng.Intn(256)))
			for k := rng.Intn(40); k > 0; k-- {
				m.Hardware()
			}
		}
		m.M.Write(0x0000, 0x0a)
		if seed%2 == 0 {
			m.QuietLCD()
		} else {
			offInScan(m, rng)
		}
	}
	return m
}

// offInScan switches the LCD off in the middle of the OAM scan (mode 2) of a
// visible line, a random number of cycles into it: with the LCD off the OAM
// must be plain memory however it was switched off.
func offInScan(m *machine.Machine, rng *rand.Rand) {
	m.P.WriteLCDC(0x91)
	for i := 0; i < 600+rng.Intn(3000); i++ {
		m.Hardware()
	}
	for i := 0; i < 2000 && m.P.ReadSTAT()&3 != 2; i++ {
		m.Hardware()
	}
	for k := rng.Intn(19); k > 0; k-- {
		m.Hardware()
	}
	m.P.WriteLCDC(m.P.ReadLCDC() & 0x7f)
}

// busDone is what the CPU does at the end of every machine cycle in which it
// ran a sub-instruction: it lets the OAM apply the corruption armed by an
// access during the scan. With the LCD off nothing may be armed.
func busDone(m *machine.Machine) { m.O.Corrupt() }

func memExec(id, mode string, seed int64, ops []memOp) *trace.Scenario {
	var m *machine.Machine
	if perr := machine.Try(func() { m = memMachine(mode, seed) }); perr != "" {
		return &trace.Scenario{ID: id, Reset: []any{memCart.kind, 0, mode, seed}, Ev: [][]any{{"panic", "while preparing the start state: " + perr}}}
	}
	lcd := 0
	if m.P.ReadLCDC()&0x80 != 0 {
		lcd = 1
	}
	sc := &trace.Scenario{ID: id, Reset: []any{memCart.kind, lcd, mode, seed}}
	for _, o := range ops {
		var ev []any
		perr := machine.Try(func() {
			switch o.k {
			case "w":
				m.M.Write(uint16(o.a), uint8(o.v))
				busDone(m)
				ev = []any{"w", o.a, o.v}
			case "r":
				ev = []any{"r", o.a, int(m.M.Read(uint16(o.a)))}
				busDone(m)
			case "hot":
				hotState(m, rand.New(rand.NewSource(int64(o.a)<<8|int64(o.v))), o.v%2 == 1)
				ev = []any{"hot", o.a, o.v}
			case "tick":
				for i := 0; i < o.a; i++ {
					m.Hardware()
				}
				ev = []any{"tick", o.a}
			case "wf":
				busDone(m) // flush whatever an earlier access armed, before the first read-out
				lcdOff := m.P.ReadLCDC()&0x80 == 0
				before := snapshot64(m)
				m.M.Write(uint16(o.a), uint8(o.v))
				if lcdOff {
					busDone(m) // with the LCD on the OAM bug is C17's business, not a footprint
				}
				after := snapshot64(m)
				diffs := [][]int{}
				for a := 0; a < 0x10000; a++ {
					if before[a] != after[a] {
						diffs = append(diffs, []int{a, int(before[a]), int(after[a])})
					}
				}
				if len(diffs) > 600 {
					// a bank switch changes whole windows: keep the first and last of each run
					diffs = compressRuns(diffs)
				}
				ev = []any{"wf", o.a, o.v, diffs}
			}
		})
		if perr != "" {
			sc.Ev = append(sc.Ev, []any{"panic", fmt.Sprintf("%s %04x %02x: %s", o.k, o.a, o.v, perr)})
			return sc
		}
		sc.Ev = append(sc.Ev, ev)
	}
	return sc
}

// hotState puts the machine into a state in which register writes have the
// most side effects to get wrong: sound on with channels running, the timer
// within a few cycles of an overflow, a serial transfer under way.
func hotState(m *machine.Machine, rng *rand.Rand, sweepEdge bool) {
	w := func(a, v int) { m.M.Write(uint16(a), uint8(v)); busDone(m) }
	if rng.Intn(4) != 0 {
		w(0xff26, 0x80)
		w(0xff25, rng.Intn(256))
		w(0xff24, rng.Intn(256))
		for ch := 0; ch < 4; ch++ {
			if rng.Intn(4) == 0 {
				continue
			}
			base := 0xff10 + 5*ch
			switch ch {
			case 0:
				w(base, rng.Intn(128))
				w(base+1, rng.Intn(256))
				w(base+2, 0x08|rng.Intn(256))
			case 1:
				w(base+1, rng.Intn(256))
				w(base+2, 0x08|rng.Intn(256))
			case 2:
				w(base, 0x80)
				w(base+1, rng.Intn(200))
				w(base+2, rng.Intn(256))
			case 3:
				w(base+1, rng.Intn(56))
				w(base+2, 0x08|rng.Intn(256))
			}
			lo, hi := rng.Intn(256), 0x80|rng.Intn(0x48)&0x47
			if ch == 0 && sweepEdge {
				// channel 1 in add mode with a frequency just below the overflow: hh00 passes the check at the trigger,
				// hhFF would not (a write to NR13 must not run the check)
				sh := 1 + lo%7
				w(base, (1+lo%5)<<4|sh)
				lo, hi = 0, hi&0xc0|[]int{5, 6, 7, 7, 7, 7, 7}[sh-1]
			}
			w(base+3, lo)
			w(base+4, hi)
		}
	}
	if rng.Intn(3) != 0 {
		w(0xff06, rng.Intn(256))
		w(0xff07, 0x05)
		w(0xff05, 0xfd+rng.Intn(3))
	}
	if rng.Intn(3) == 0 {
		w(0xff01, rng.Intn(256))
		w(0xff02, 0x81)
	}
	for k := rng.Intn(24); k > 0; k-- {
		m.Hardware()
	}
}

func snapshot64(m *machine.Machine) []byte {
	b := make([]byte, 0x10000)
	for a := 0; a < 0x10000; a++ {
		b[a] = m.M.VerifPeek(uint16(a)) // Mapper.Read without arming the OAM-bug logic
	}
	return b
}

func compressRuns(d [][]int) [][]int {
	var out [][]int
	for i := 0; i < len(d); i++ {
		first := i == 0 || d[i-1][0] != d[i][0]-1
		last := i == len(d)-1 || d[i+1][0] != d[i][0]+1
		if first || last {
			out = append(out, d[i])
		}
	}
	return out
}

func memMain(c *Ctx) {
	switch c.Mode {
	case "gen":
		memGen(c)
	case "rerun":
		memRerun(c)
	default:
		die("mem: unknown mode %s", c.Mode)
	}
}

// addresses worth testing one by one: the whole I/O page and both sides of every region boundary
func memEdgeAddrs() []int {
	a := []int{0x8000, 0x8001, 0x9fff, 0xc000, 0xc001, 0xddff, 0xde00, 0xdfff, 0xe000, 0xe001, 0xfdff, 0xfe00, 0xfe01, 0xfe9f, 0xfea0, 0xfea1, 0xfeff}
	for x := 0xff00; x <= 0xffff; x++ {
		a = append(a, x)
	}
	return a
}

func memGen(c *Ctx) {
	chunk := 60000
	if c.Fam == "fp" {
		chunk = 700 // footprint events carry whole diffs
	}
	w := trace.NewWriter(c.Out, "mem", chunk)
	var mu sync.Mutex
	n := 0
	type job struct {
		id, mode string
		seed     int64
		ops      []memOp
	}
	var jobs []job
	add := func(fam, mode string, seed int64, ops []memOp) {
		jobs = append(jobs, job{fmt.Sprintf("mem-%s-%s-%d", fam, mode, n), mode, seed, ops})
		n++
	}
	modes := []string{"lcdoff", "random", "poweron", "lcdoff2"}
	if c.Want("single") {
		// exhaustive single writes: every edge address x values, read back at once (and the mirror / neighbours)
		rng := c.Rand(601)
		vals := []int{0x00, 0xff, 0x55, 0xaa, 0x01, 0x80, 0x1f, 0xe0, 0x07, 0xf8, 0x91, 0x7f}
		if c.Thorough() {
			vals = nil
			for v := 0; v < 256; v++ {
				vals = append(vals, v)
			}
		}
		for _, mode := range modes {
			for _, a := range memEdgeAddrs() {
				if a == 0xff46 {
					continue // DMA has its own family (it makes OAM inaccessible for a while)
				}
				var ops []memOp
				if a == 0xff05 {
					ops = append(ops, memOp{"r", 0xff07, 0}) // TIMA keeps a written value only while the timer is known to be off
				}
				for _, v := range vals {
					if a == 0xff44 && mode == "poweron" && v < 154 {
						continue // with the LCD running only values LY can never take tell "stored" from "coincidence"
					}
					ops = append(ops, memOp{"r", a, 0}, memOp{"w", a, v}, memOp{"r", a, 0})
					if a >= 0xc000 && a < 0xde00 {
						ops = append(ops, memOp{"r", a + 0x2000, 0})
					}
					if a >= 0xe000 && a < 0xfe00 {
						ops = append(ops, memOp{"r", a - 0x2000, 0})
					}
					if rng.Intn(8) == 0 {
						ops = append(ops, memOp{"r", a ^ 1, 0})
					}
				}
				add("single", mode, int64(rng.Intn(1<<30)), ops)
			}
		}
	}
	if c.Want("hotreg") {
		// register read-back while the hardware behind the register is busy: sound channels running, the timer within
		// cycles of an overflow / in its reload cycle, a serial transfer or DMA under way
		rng := c.Rand(606)
		nh := 3
		if c.Thorough() {
			nh = 40
		}
		for _, mode := range []string{"poweron", "lcdoff"} {
			var ops []memOp
			for a := 0xff00; a <= 0xff80; a++ {
				if a == 0xff46 || a == 0xff44 || a == 0xff04 || (a >= 0xff10 && a < 0xff40) {
					continue // DMA / LY / DIV have their own families, the sound registers belong to C18
				}
				for k := 0; k < nh; k++ {
					v := []int{0x00, 0xff, 0x05}[k%3]
					if k >= 3 {
						v = rng.Intn(256)
					}
					ops = append(ops, memOp{"hot", rng.Intn(1 << 20), rng.Intn(256)}, memOp{"tick", rng.Intn(14), 0}, memOp{"w", a, v}, memOp{"r", a, 0})
					if len(ops) >= 400 {
						add("hotreg", mode, int64(rng.Intn(1<<30)), ops)
						ops = nil
					}
				}
			}
			if len(ops) > 0 {
				add("hotreg", mode, int64(rng.Intn(1<<30)), ops)
			}
			// the timer registers at every cycle around an overflow (the cycle TIMA reads 00, the reload cycle, after it)
			ops = nil
			// (TMA and TAC always keep what is written; a TIMA write in those cycles is C12's subject)
			for _, a := range []int{0xff06, 0xff07} {
				for t := 0; t <= 14; t++ {
					for _, v := range []int{0x00, 0x07, 0xfa, rng.Intn(256)} {
						ops = append(ops, memOp{"w", 0xff06, rng.Intn(256)}, memOp{"w", 0xff07, 0x05}, memOp{"w", 0xff05, 0xfe}, memOp{"tick", t, 0}, memOp{"w", a, v}, memOp{"r", a, 0})
					}
				}
				add("hotreg", mode, int64(rng.Intn(1<<30)), ops)
				ops = nil
			}
		}
	}
	if c.Want("cross") {
		// cross reads: after a write somewhere, what do the *other* registers and the cells on both sides of every
		// region boundary read? (an address decoded into a neighbouring region, a register write that also moves another
		// register, are invisible to write-then-read-back of the same address)
		rng := c.Rand(607)
		count := 40
		if c.Thorough() {
			count = 600
		}
		pool := []int{0xff0f, 0xff41, 0xff45, 0xff42, 0xff43, 0xff47, 0xff48, 0xff49, 0xff4a, 0xff4b, 0xffff, 0xff06, 0xff07, 0xff00, 0xff02,
			0xfe00, 0xfe01, 0xfe9f, 0xde00, 0xddff, 0xfdff, 0xe000, 0xc000, 0xdfff, 0xff80, 0xfffe, 0x8000, 0x9fff, 0xa000, 0xbfff, 0xfea0, 0xfeff}
		for i := 0; i < count; i++ {
			mode := []string{"lcdoff", "lcdoff2", "random"}[i%3]
			var ops []memOp
			for _, a := range pool {
				ops = append(ops, memOp{"r", a, 0})
			}
			for j := 0; j < 90; j++ {
				a := pool[rng.Intn(len(pool))]
				v := []int{0x00, 0x40, 0xff, 0x44, rng.Intn(256), rng.Intn(256)}[rng.Intn(6)]
				ops = append(ops, memOp{"w", a, v})
				for k := 0; k < 4; k++ {
					ops = append(ops, memOp{"r", pool[rng.Intn(len(pool))], 0})
				}
			}
			add("cross", mode, int64(rng.Intn(1<<30)), ops)
		}
	}
	if c.Want("bulk") {
		// strided sweep of the bulk regions (every address in thorough), a few values each
		rng := c.Rand(602)
		stride := 37
		if c.Thorough() {
			stride = 1
		}
		for _, mode := range []string{"lcdoff", "random", "lcdoff2"} {
			for _, rg := range [][2]int{{0x8000, 0xa000}, {0xc000, 0xe000}, {0xe000, 0xfe00}, {0xfe00, 0xff00}, {0xff80, 0x10000}} {
				var ops []memOp
				for a := rg[0] + rng.Intn(stride); a < rg[1]; a += stride {
					v := rng.Intn(256)
					ops = append(ops, memOp{"w", a, v}, memOp{"r", a, 0})
					if len(ops) >= 400 {
						add("bulk", mode, int64(rng.Intn(1<<30)), ops)
						ops = nil
					}
				}
				if len(ops) > 0 {
					add("bulk", mode, int64(rng.Intn(1<<30)), ops)
				}
			}
		}
	}
	if c.Want("seq") {
		// random write / read sequences over at most 48 distinct addresses per scenario
		rng := c.Rand(603)
		count := 150
		if c.Thorough() {
			count = 1500
		}
		edge := memEdgeAddrs()
		for i := 0; i < count; i++ {
			mode := modes[rng.Intn(len(modes))]
			var pool []int
			for len(pool) < 48 {
				var a int
				switch rng.Intn(6) {
				case 0:
					a = edge[rng.Intn(len(edge))]
				case 1:
					a = 0xc000 + rng.Intn(0x2000)
				case 2:
					a = 0xe000 + rng.Intn(0x1e00)
				case 3:
					a = 0x8000 + rng.Intn(0x2000)
				case 4:
					a = 0xfe00 + rng.Intn(0x100)
				default:
					a = 0xff00 + rng.Intn(0x100)
				}
				if (a == 0xff46 && i%4 != 0) || (a == 0xff40 && mode != "poweron") {
					continue // a DMA makes OAM unreadable for a while: only in every fourth scenario
				}
				pool = append(pool, a)
				// make sure mirrors meet
				if a >= 0xc000 && a < 0xde00 && rng.Intn(2) == 0 {
					pool = append(pool, a+0x2000)
				}
			}
			var ops []memOp
			for j := 0; j < 220; j++ {
				a := pool[rng.Intn(len(pool))]
				if i%4 == 0 && rng.Intn(40) == 0 {
					ops = append(ops, memOp{"tick", 1 + rng.Intn(200), 0})
				}
				if rng.Intn(2) == 0 {
					v := rng.Intn(256)
					if a == 0xff44 && v < 154 {
						v = 154 + rng.Intn(100)
					}
					ops = append(ops, memOp{"w", a, v})
				} else {
					ops = append(ops, memOp{"r", a, 0})
				}
			}
			add("seq", mode, int64(rng.Intn(1<<30)), ops)
		}
	}
	if c.Want("dma") {
		// FF46 reads back the last value written (the transfer itself belongs to C16)
		rng := c.Rand(604)
		for _, mode := range modes {
			var ops []memOp
			for v := 0; v < 256; v++ {
				ops = append(ops, memOp{"w", 0xff46, v}, memOp{"r", 0xff46, 0})
				if rng.Intn(4) == 0 {
					ops = append(ops, memOp{"tick", 1 + rng.Intn(200), 0}, memOp{"r", 0xff46, 0})
				}
			}
			ops = append(ops, memOp{"tick", 170, 0}, memOp{"r", 0xff46, 0}, memOp{"r", 0xfe00, 0}, memOp{"w", 0xfe00, 0x12}, memOp{"r", 0xfe00, 0})
			add("dma", mode, int64(rng.Intn(1<<30)), ops)
		}
	}
	if c.Want("fp") {
		// C07: one write, the complete 64 KiB read-out before and after
		rng := c.Rand(605)
		nv := 3
		nrand := 600
		if c.Thorough() {
			nv = 24
			nrand = 30000
		}
		for _, mode := range []string{"random", "lcdoff", "poweron", "random", "lcdoff2"} {
			seed := int64(rng.Intn(1 << 30))
			var ops []memOp
			flush := func() {
				if len(ops) > 0 {
					add("fp", mode, seed, ops)
					ops = nil
				}
			}
			for _, a := range memEdgeAddrs() {
				for k := 0; k < nv; k++ {
					v := []int{0x00, 0xff, 0x80}[k%3]
					if k >= 3 {
						v = rng.Intn(256)
					}
					ops = append(ops, memOp{"wf", a, v})
					if a == 0xff46 {
						ops = append(ops, memOp{"tick", 170, 0})
					}
					if len(ops) >= 40 {
						flush()
					}
				}
			}
			for i := 0; i < nrand; i++ {
				a := rng.Intn(0x10000)
				ops = append(ops, memOp{"wf", a, rng.Intn(256)})
				if a == 0xff46 {
					ops = append(ops, memOp{"tick", 170, 0})
				}
				if len(ops) >= 40 {
					flush()
				}
			}
			flush()
		}
		// hot states: sound channels running, the timer about to overflow, a serial transfer under way
		nh := 6
		if c.Thorough() {
			nh = 48
		}
		for _, mode := range []string{"poweron", "lcdoff"} {
			seed := int64(rng.Intn(1 << 30))
			var ops []memOp
			for a := 0xff00; a <= 0xff80; a++ {
				if a == 0xff46 {
					continue
				}
				for k := 0; k < nh; k++ {
					v := []int{0x00, 0xff, 0x80, 0x7f}[k%4]
					if k >= 4 {
						v = rng.Intn(256)
					}
					ops = append(ops, memOp{"hot", rng.Intn(1 << 20), rng.Intn(256)}, memOp{"wf", a, v})
					if len(ops) >= 40 {
						add("fp", mode, seed, ops)
						ops = nil
					}
				}
			}
			if len(ops) > 0 {
				add("fp", mode, seed, ops)
			}
		}
	}
	// run the jobs on all cores (no CPU objects are involved, so no package-level state is shared)
	results := make([]*trace.Scenario, len(jobs))
	parallel(len(jobs), func(i int) {
		j := jobs[i]
		results[i] = memExec(j.id, j.mode, j.seed, j.ops)
	})
	mu.Lock()
	for _, s := range results {
		w.Put(s)
	}
	mu.Unlock()
	w.Close()
}

func memRerun(c *Ctx) {
	scs, err := trace.ReadAll(c.In)
	if err != nil {
		die("%v", err)
	}
	w := trace.NewWriter(c.Out, "mem-rerun", 1<<30)
	for _, s := range scs {
		r := s.Reset.([]any)
		var ops []memOp
		for _, e := range s.Ev {
			k := trace.Str(e[0])
			switch k {
			case "w", "wf", "hot":
				ops = append(ops, memOp{k, trace.Int(e[1]), trace.Int(e[2])})
			case "r", "tick":
				ops = append(ops, memOp{k, trace.Int(e[1]), 0})
			case "panic":
				var kk string
				var a, v int
				fmt.Sscanf(trace.Str(e[1]), "%s %04x %02x", &kk, &a, &v)
				ops = append(ops, memOp{kk, a, v})
			}
		}
		w.Put(memExec(s.ID, trace.Str(r[2]), int64(trace.Int(r[3])), ops))
	}
	w.Close()
}
