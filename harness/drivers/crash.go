package drivers

import (
	"bufio"
	"bytes"
	"fmt"
	"math/rand"
	"os"
	"os/exec"
	"regexp"
	"strconv"
	"strings"

	"verif/harness/machine"
	"verif/harness/trace"
)

func init() { Registry["crash"] = crashMain }

func crashMain(c *Ctx) {
	switch c.Mode {
	case "gen":
		crashGen(c)
	case "child":
		crashChild(c)
	case "rerun":
		crashRerun(c)
	default:
		die("crash: unknown mode %s", c.Mode)
	}
}

// battery exercises a freshly constructed machine through the bus: every
// window boundary is read, every control region is written with a few values
// and read again, cartridge RAM is dumped and the hardware is ticked.
func battery(m *machine.Machine, rng *rand.Rand, n int) int {
	done := 0
	reads := []int{0x0000, 0x0147, 0x3fff, 0x4000, 0x7fff, 0xa000, 0xa1ff, 0xbfff}
	vals := []int{0x00, 0x01, 0x0a, 0x0f, 0x1f, 0x20, 0x7f, 0x80, 0xff}
	for i := 0; i < n; i++ {
		a := []int{0x0000, 0x00ff, 0x0100, 0x1fff, 0x2000, 0x2fff, 0x3000, 0x3fff, 0x4000, 0x5fff, 0x6000, 0x7fff, 0xa000, 0xbfff}[rng.Intn(14)]
		m.M.Write(uint16(a), uint8(vals[rng.Intn(len(vals))]))
		for _, r := range reads {
			m.M.Read(uint16(r))
		}
		if i%8 == 0 {
			m.M.DumpRAM()
			for k := 0; k < 8; k++ {
				m.Hardware()
			}
		}
		done++
	}
	return done
}

func crashImages(c *Ctx, w *trace.Writer) {
	rng := c.Rand(1101)
	n := 0
	try := func(tag string, img []byte, nops int) {
		sc := &trace.Scenario{ID: fmt.Sprintf("crash-img-%s-%d", tag, n), Reset: map[string]any{"fam": "images", "len": len(img), "hdr": hdrOf(img), "nops": nops, "seed": n}}
		n++
		var m *machine.Machine
		if perr := machine.Try(func() { m = machine.New(img, machine.Options{NoCPU: true}) }); perr != "" {
			sc.Ev = append(sc.Ev, []any{"ctor", 0})
			w.Put(sc)
			return
		}
		sc.Ev = append(sc.Ev, []any{"ctor", 1})
		done := 0
		r2 := rand.New(rand.NewSource(int64(n)))
		perr := machine.Try(func() { done = battery(m, r2, nops) })
		sc.Ev = append(sc.Ev, []any{"ops", done})
		if perr != "" {
			sc.Ev = append(sc.Ev, []any{"panic", perr})
		}
		w.Put(sc)
	}
	// short, odd-sized and empty images
	try("nil", nil, 40)
	for _, sz := range []int{0, 1, 0x100, 0x147, 0x148, 0x149, 0x14a, 0x14f, 0x150, 0x3fff, 0x4000, 0x4001, 0x7fff, 0x8000, 0x8001, 0xc000, 0x10000, 0x10001} {
		for _, fill := range []int{0x00, 0xff, -1} {
			img := make([]byte, sz)
			for i := range img {
				if fill < 0 {
					img[i] = byte(rng.Intn(256))
				} else {
					img[i] = byte(fill)
				}
			}
			try(fmt.Sprintf("sz%x", sz), img, 40)
		}
	}
	// every cartridge-type byte x ROM-size byte x RAM-size byte on images whose length does / does not match
	romSizes := []int{0, 1, 2, 3, 4, 5, 6, 7, 8, 9, 0x52, 0x53, 0x54, 0x80, 0xff}
	ramSizes := []int{0, 1, 2, 3, 4, 5, 6, 0xff}
	types := make([]int, 256)
	for i := range types {
		types[i] = i
	}
	for _, t := range types {
		for _, rs := range romSizes {
			if !c.Thorough() && rs > 3 && rs != 7 && rs != 0xff && rng.Intn(3) > 0 {
				continue
			}
			for _, ra := range ramSizes {
				if !c.Thorough() && rng.Intn(4) > 0 && ra != 0 {
					continue
				}
				size := 0x8000
				if rs <= 8 && (c.Thorough() || rs <= 3 || rs == 7) {
					size = (2 << uint(rs)) * 0x4000
				}
				img := make([]byte, size)
				img[0x147], img[0x148], img[0x149] = byte(t), byte(rs), byte(ra)
				try(fmt.Sprintf("t%02x-r%02x-a%02x", t, rs, ra), img, 30)
			}
		}
	}
	// images that are not a whole number of 16 KiB banks x header bytes that make the size arithmetic degenerate
	// (a ROM-size byte of 3F and above shifts the expected bank count out of the word)
	suppTypes := []int{0x00, 0x01, 0x02, 0x03, 0x05, 0x06, 0x08, 0x09, 0x0f, 0x10, 0x11, 0x12, 0x13, 0x19, 0x1a, 0x1b, 0x1c, 0x1d, 0x1e}
	oddSizes := []int{0x150, 0x151, 0x2000, 0x3fff, 0x4001, 0x7fff, 0xc000}
	oddRom := []int{0x00, 0x01, 0x1f, 0x20, 0x3e, 0x3f, 0x40, 0x41, 0x7f, 0x80, 0xfe, 0xff}
	for _, t := range suppTypes {
		for _, sz := range oddSizes {
			for _, rs := range oddRom {
				if !c.Thorough() && rng.Intn(3) > 0 && rs != 0x3f && rs != 0xff {
					continue
				}
				img := make([]byte, sz)
				for i := range img {
					img[i] = byte(rng.Intn(256))
				}
				img[0x147], img[0x148], img[0x149] = byte(t), byte(rs), byte([]int{0, 2, 3}[rng.Intn(3)])
				try(fmt.Sprintf("odd-t%02x-r%02x-sz%x", t, rs, sz), img, 40)
			}
		}
	}
}

func hdrOf(img []byte) []int {
	if len(img) < 0x14a {
		return []int{-1, -1, -1}
	}
	return []int{int(img[0x147]), int(img[0x148]), int(img[0x149])}
}

// crashCtl: exhaustive single control write on every constructible cartridge, all windows read afterwards.
func crashCtl(c *Ctx, w *trace.Writer) {
	n := 0
	type tk struct {
		kind string
		typ  int
	}
	kinds := []tk{{"none", 0x00}, {"mbc1", 0x03}, {"mbc2", 0x06}, {"mbc3", 0x13}, {"mbc3", 0x10}, {"mbc5", 0x1b}}
	romSizes := []int{0, 1, 3, 6, 7, 8}
	if c.Thorough() {
		romSizes = []int{0, 1, 2, 3, 4, 5, 6, 7, 8}
	}
	ramSizes := []int{0, 2, 3, 4, 5}
	for _, k := range kinds {
		for _, rs := range romSizes {
			for _, ra := range ramSizes {
				if !c.Thorough() && ra != 0 && ra != 3 && rs != 1 {
					continue
				}
				cs := cartSpec{k.kind, k.typ, rs, ra, k.typ == 0x10}
				var m0 *machine.Machine
				if perr := machine.Try(func() { m0 = machine.New(cartImage(cs), machine.Options{NoCPU: true}) }); perr != "" {
					sc := &trace.Scenario{ID: fmt.Sprintf("crash-ctl-%s-%d", cs, n), Reset: map[string]any{"fam": "ctl", "cart": cs.String()}, Ev: [][]any{{"ctor", 0}}}
					n++
					w.Put(sc)
					continue
				}
				_ = m0
				for _, a := range []int{0x0000, 0x0100, 0x1fff, 0x2000, 0x2100, 0x3000, 0x3fff, 0x4000, 0x5fff, 0x6000, 0x7fff} {
					sc := &trace.Scenario{ID: fmt.Sprintf("crash-ctl-%s-%04x-%d", cs, a, n), Reset: map[string]any{"fam": "ctl", "cart": cs.String(), "addr": a}}
					n++
					sc.Ev = append(sc.Ev, []any{"ctor", 1})
					done := 0
					perr := machine.Try(func() {
						for v := 0; v < 256; v++ {
							// a fresh machine per value would be the purest form; registers are instead restored by re-enabling RAM,
							// which keeps the run fast. The value under test is the last control write before the reads.
							m := m0
							m.M.Write(0x0000, 0x0a)
							m.M.Write(uint16(a), uint8(v))
							for _, r := range []int{0x0000, 0x3fff, 0x4000, 0x7fff, 0xa000, 0xbfff} {
								m.M.Read(uint16(r))
							}
							m.M.Write(0xa000, uint8(v))
							m.M.Write(0xbfff, uint8(v))
							m.M.DumpRAM()
							done++
						}
					})
					sc.Ev = append(sc.Ev, []any{"ops", done})
					if perr != "" {
						sc.Ev = append(sc.Ev, []any{"panic", fmt.Sprintf("addr %04x value %02x: %s", a, done, perr)})
						// the machine may be left in a bad state: rebuild it
						machine.Try(func() { m0 = machine.New(cartImage(cs), machine.Options{NoCPU: true}) })
					}
					w.Put(sc)
				}
			}
		}
	}
}

// crashBus: random multi-step bus sequences over the whole address space with the hardware ticking.
func crashBus(c *Ctx, w *trace.Writer) {
	rng := c.Rand(1103)
	count := 60
	if c.Thorough() {
		count = 600
	}
	carts := append(mbcCarts(c, true), mbcCarts(c, false)...)
	for i := 0; i < count; i++ {
		cs := carts[rng.Intn(len(carts))]
		seed := rng.Int63n(1 << 40)
		sc := crashBusRun(fmt.Sprintf("crash-bus-%s-%d", cs, i), cs, seed, 4000)
		w.Put(sc)
	}
}

func crashBusRun(id string, cs cartSpec, seed int64, steps int) *trace.Scenario {
	sc := &trace.Scenario{ID: id, Reset: map[string]any{"fam": "bus", "cart": cs.String(), "seed": seed, "steps": steps,
		"typ": cs.typ, "rom": cs.romSize, "ram": cs.ramSize, "kind": cs.kind}}
	var m *machine.Machine
	if perr := machine.Try(func() { m = machine.New(cartImage(cs), machine.Options{NoCPU: true, Audio: false}) }); perr != "" {
		sc.Ev = append(sc.Ev, []any{"ctor", 0})
		return sc
	}
	sc.Ev = append(sc.Ev, []any{"ctor", 1})
	rng := rand.New(rand.NewSource(seed))
	done := 0
	last := ""
	perr := machine.Try(func() {
		// in the frame loop the hardware has been stepped once before the guest can make its first data access
		m.Hardware()
		for i := 0; i < steps; i++ {
			var a int
			switch rng.Intn(8) {
			case 0:
				a = rng.Intn(0x8000)
			case 1:
				a = 0xa000 + rng.Intn(0x2000)
			case 2:
				a = 0xfe00 + rng.Intn(0x100)
			case 3:
				a = 0xff00 + rng.Intn(0x100)
			case 4:
				a = []int{0xff40, 0xff41, 0xff46, 0xff04, 0xff07, 0xff26, 0xff0f, 0xffff, 0xff00, 0xff1e, 0xff23}[rng.Intn(11)]
			default:
				a = rng.Intn(0x10000)
			}
			if rng.Intn(2) == 0 {
				v := rng.Intn(256)
				last = fmt.Sprintf("write %04x %02x", a, v)
				m.M.Write(uint16(a), uint8(v))
			} else {
				last = fmt.Sprintf("read %04x", a)
				m.M.Read(uint16(a))
			}
			// the CPU would also run the OAM-bug bookkeeping once per cycle
			m.O.Corrupt()
			k := rng.Intn(4)
			for j := 0; j < k; j++ {
				last = "tick"
				m.Hardware()
			}
			done++
		}
	})
	sc.Ev = append(sc.Ev, []any{"ops", done})
	if perr != "" {
		sc.Ev = append(sc.Ev, []any{"panic", last + ": " + perr})
	}
	return sc
}

// ---- programs in a child process (undefined opcodes call os.Exit) ----

type progJob struct {
	cs     cartSpec
	seed   int64
	cycles int
	style  int // 0 random bytes, 1 grammar program steering pointers through FE00-FEFF, 2 random bytes without undefined opcodes
}

func progJobs(c *Ctx) []progJob {
	rng := c.Rand(1104)
	count := 120
	if c.Thorough() {
		count = 1500
	}
	carts := []cartSpec{{"none", 0x00, 0, 0, false}, {"mbc1", 0x03, 2, 3, false}, {"mbc2", 0x06, 1, 0, false}, {"mbc3", 0x13, 3, 3, false}, {"mbc3", 0x10, 2, 3, true}, {"mbc5", 0x1b, 3, 4, false}}
	var jobs []progJob
	for i := 0; i < count; i++ {
		jobs = append(jobs, progJob{carts[rng.Intn(len(carts))], rng.Int63n(1 << 40), 4000 + rng.Intn(16000), i % 3})
	}
	return jobs
}

// buildProgram fills WRAM (C000-DFFF) with the job's program; execution starts at C000.
func buildProgram(m *machine.Machine, j progJob) {
	rng := rand.New(rand.NewSource(j.seed))
	for a := 0xc000; a < 0xe000; a++ {
		b := rng.Intn(256)
		switch j.style {
		case 1:
			b = 0
		case 2:
			for undefinedOps[b] || b == 0x10 {
				b = rng.Intn(256)
			}
		}
		m.M.Write(uint16(a), uint8(b))
	}
	if j.style == 1 {
		// grammar: pointers into OAM / the unusable area, then 16-bit INC/DEC, PUSH/POP, (HL+)/(HL-) accesses, LCD switched on and off
		var code []int
		emit := func(b ...int) { code = append(code, b...) }
		ptr := func() int { return 0xfe00 + rng.Intn(0x100) }
		for len(code) < 0x1800 {
			switch rng.Intn(14) {
			case 0:
				p := ptr()
				emit(0x21, p&0xff, p>>8)
			case 1:
				p := ptr()
				emit(0x01, p&0xff, p>>8)
			case 2:
				p := ptr()
				emit(0x11, p&0xff, p>>8)
			case 3:
				p := ptr()
				emit(0x31, p&0xff, p>>8)
			case 4:
				emit([]int{0x03, 0x13, 0x23, 0x33, 0x0b, 0x1b, 0x2b, 0x3b}[rng.Intn(8)])
			case 5:
				emit([]int{0xc5, 0xd5, 0xe5, 0xf5, 0xc1, 0xd1, 0xe1, 0xf1}[rng.Intn(8)])
			case 6:
				emit([]int{0x22, 0x2a, 0x32, 0x3a, 0x77, 0x7e, 0x02, 0x0a, 0x12, 0x1a, 0x34, 0x35}[rng.Intn(12)])
			case 7:
				emit(0x3e, []int{0x91, 0x11, 0x80, 0x00}[rng.Intn(4)], 0xe0, 0x40) // LCDC on / off
			case 8:
				emit(0x3e, rng.Intn(0xf2), 0xe0, 0x46) // DMA
			case 9:
				emit(0xcd, 0x00, 0xd8) // CALL d800 (RET there)
			case 10:
				emit(0x08, rng.Intn(256), 0xfe) // LD (FExx),SP
			default:
				for k := rng.Intn(20); k > 0; k-- {
					emit(0x00)
				}
			}
		}
		emit(0xc3, 0x00, 0xc0) // JP c000
		for i, b := range code {
			m.M.Write(uint16(0xc000+i), uint8(b))
		}
		m.M.Write(0xd800, 0xc9)
	}
}

var invalidRe = regexp.MustCompile(`0x([0-9A-Fa-f]{2}) is not a valid instruction`)

// crashChild runs jobs [Shard, Shard+Shards) (start index, count) and reports on stdout.
func crashChild(c *Ctx) {
	jobs := progJobs(c)
	out := bufio.NewWriter(os.Stdout)
	for i := c.Shard; i < c.Shard+c.Shards && i < len(jobs); i++ {
		j := jobs[i]
		fmt.Fprintf(out, "BEGIN %d\n", i)
		out.Flush()
		var m *machine.Machine
		if perr := machine.Try(func() { m = machine.New(cartImage(j.cs), machine.Options{}) }); perr != "" {
			fmt.Fprintf(out, "CTORFAIL %d\n", i)
			out.Flush()
			continue
		}
		cycles := 0
		perr := machine.Try(func() {
			buildProgram(m, j)
			regs := m.CPU.VerifGet()
			regs.PC, regs.SP = 0xc000, 0xdffe
			m.CPU.VerifSet(regs)
			for cycles < j.cycles {
				if m.CPU.VerifAtBoundary() {
					st := m.CPU.VerifGet()
					if !st.Halted && !st.Stopped {
						op := int(m.M.VerifPeek(st.PC))
						if undefinedOps[op] {
							// the CPU is about to start an undefined opcode (unless an interrupt is dispatched instead)
							fmt.Fprintf(out, "UNDEF %d %02x\n", i, op)
							out.Flush()
						}
					}
				}
				m.Cycle()
				cycles++
			}
		})
		if perr != "" {
			fmt.Fprintf(out, "PANIC %d %d %s\n", i, cycles, strings.ReplaceAll(perr, "\n", " "))
			out.Flush()
			continue
		}
		fmt.Fprintf(out, "END %d %d\n", i, cycles)
		out.Flush()
	}
}

func crashProg(c *Ctx, w *trace.Writer) {
	jobs := progJobs(c)
	self, _ := os.Executable()
	next := 0
	for next < len(jobs) {
		cmd := exec.Command(self, "crash", "child", "-tier", c.Tier, "-seed", strconv.FormatInt(c.Seed, 10), "-shard", strconv.Itoa(next), "-shards", strconv.Itoa(len(jobs)-next))
		var buf bytes.Buffer
		cmd.Stdout = &buf
		cmd.Stderr = &buf
		err := cmd.Run()
		code := 0
		if err != nil {
			if ee, ok := err.(*exec.ExitError); ok {
				code = ee.ExitCode()
			} else {
				die("crash child: %v", err)
			}
		}
		cur := -1
		lastUndef := map[int]int{}
		finished := map[int]bool{}
		lines := strings.Split(buf.String(), "\n")
		for _, ln := range lines {
			f := strings.Fields(ln)
			if len(f) < 2 {
				continue
			}
			idx, _ := strconv.Atoi(f[1])
			switch f[0] {
			case "BEGIN":
				cur = idx
			case "UNDEF":
				op, _ := strconv.ParseInt(f[2], 16, 32)
				lastUndef[idx] = int(op)
			case "CTORFAIL":
				finished[idx] = true
				w.Put(&trace.Scenario{ID: fmt.Sprintf("crash-prog-%d", idx), Reset: progReset(jobs[idx], idx), Ev: [][]any{{"ctor", 0}}})
			case "END":
				finished[idx] = true
				cy, _ := strconv.Atoi(f[2])
				w.Put(&trace.Scenario{ID: fmt.Sprintf("crash-prog-%d", idx), Reset: progReset(jobs[idx], idx), Ev: [][]any{{"ctor", 1}, {"ops", cy}}})
			case "PANIC":
				finished[idx] = true
				cy, _ := strconv.Atoi(f[2])
				w.Put(&trace.Scenario{ID: fmt.Sprintf("crash-prog-%d", idx), Reset: progReset(jobs[idx], idx), Ev: [][]any{{"ctor", 1}, {"ops", cy}, {"panic", strings.Join(f[3:], " ")}}})
			}
		}
		if code != 0 && cur >= 0 && !finished[cur] {
			// the child died inside job cur
			opMsg := -1
			if mm := invalidRe.FindAllStringSubmatch(buf.String(), -1); len(mm) > 0 {
				v, _ := strconv.ParseInt(mm[len(mm)-1][1], 16, 32)
				opMsg = int(v)
			}
			opPeek := -1
			if v, ok := lastUndef[cur]; ok {
				opPeek = v
			}
			ev := [][]any{{"ctor", 1}, {"ops", 0}, {"exit", code, opMsg, opPeek}}
			w.Put(&trace.Scenario{ID: fmt.Sprintf("crash-prog-%d", cur), Reset: progReset(jobs[cur], cur), Ev: ev})
			next = cur + 1
			continue
		}
		if code != 0 {
			die("crash child failed outside a job (code %d): %s", code, buf.String())
		}
		break
	}
}

func progReset(j progJob, idx int) map[string]any {
	return map[string]any{"fam": "prog", "cart": j.cs.String(), "seed": j.seed, "cycles": j.cycles, "style": j.style, "index": idx}
}

// crashOam: OAM-touching instructions executed at every phase of a scan line with the LCD on
// (the OAM-corruption emulation indexes rows relative to the PPU's position).
func crashOam(c *Ctx, w *trace.Writer) {
	type seqT struct {
		name string
		code func(p int) []int
	}
	seqs := []seqT{
		{"push", func(p int) []int { return []int{0x31, p & 0xff, p >> 8, 0xc5, 0xc5, 0xd5, 0xe5, 0xf5} }},
		{"pop", func(p int) []int { return []int{0x31, p & 0xff, p >> 8, 0xc1, 0xd1, 0xe1, 0xf1, 0xc1} }},
		{"incdec", func(p int) []int {
			return []int{0x21, p & 0xff, p >> 8, 0x01, p & 0xff, p >> 8, 0x11, p & 0xff, p >> 8, 0x23, 0x2b, 0x03, 0x0b, 0x13, 0x1b, 0x31, p & 0xff, p >> 8, 0x33, 0x3b}
		}},
		{"ldi", func(p int) []int {
			return []int{0x21, p & 0xff, p >> 8, 0x22, 0x2a, 0x32, 0x3a, 0x77, 0x7e, 0x34, 0x35, 0x36, 0x55}
		}},
		{"ldnnsp", func(p int) []int {
			return []int{0x31, p & 0xff, p >> 8, 0x08, p & 0xff, p >> 8, 0xea, p & 0xff, p >> 8, 0xfa, p & 0xff, p >> 8}
		}},
		{"callret", func(p int) []int { return []int{0x31, p & 0xff, p >> 8, 0xcd, 0x00, 0xd8, 0xc7} }},
	}
	ptrs := []int{0xfe00, 0xfe02, 0xfe08, 0xfe10, 0xfe28, 0xfe50, 0xfe98, 0xfe9e, 0xfea0, 0xfef8, 0xfeff}
	step := 1
	if !c.Thorough() {
		step = 1
	}
	n := 0
	for _, sq := range seqs {
		for _, p := range ptrs {
			for off := 0; off < 116; off += step {
				sc := &trace.Scenario{ID: fmt.Sprintf("crash-oam-%s-%04x-%d", sq.name, p, off), Reset: map[string]any{"fam": "oam", "seq": sq.name, "ptr": p, "off": off}}
				n++
				m := machine.New(intROM, machine.Options{})
				sc.Ev = append(sc.Ev, []any{"ctor", 1})
				cycles := 0
				perr := machine.Try(func() {
					code := make([]int, off)
					code = append(code, sq.code(p)...)
					code = append(code, sq.code(p)...)
					for i, b := range code {
						m.M.Write(uint16(0xc000+i), uint8(b))
					}
					m.M.Write(0xd800, 0xc9)
					r := m.CPU.VerifGet()
					r.PC = 0xc000
					m.CPU.VerifSet(r)
					for cycles < off+120 {
						m.Cycle()
						cycles++
					}
				})
				sc.Ev = append(sc.Ev, []any{"ops", cycles})
				if perr != "" {
					sc.Ev = append(sc.Ev, []any{"panic", perr})
				}
				w.Put(sc)
			}
		}
	}
}

func crashGen(c *Ctx) {
	w := trace.NewWriter(c.Out, "crash", 200000)
	if c.Want("images") {
		crashImages(c, w)
	}
	if c.Want("ctl") {
		crashCtl(c, w)
	}
	if c.Want("bus") {
		crashBus(c, w)
	}
	if c.Want("oam") {
		crashOam(c, w)
	}
	if c.Want("prog") {
		crashProg(c, w)
	}
	if c.Want("apu") {
		crashApu(c, w)
	}
	w.Close()
}

// crashApu: a playing sound channel disturbed a given number of machine cycles after its trigger - triggered again,
// DAC switched off and on, power cycled, frequency / wave RAM / polynomial rewritten - for every delay up to a bound,
// at the fastest frequencies (where every phase of the channel's timer and position is met) and at a few others.
func crashApu(c *Ctx, w *trace.Writer) {
	maxDelay := 140
	freqs := []int{0x7ff, 0x7fe, 0x7fd, 0x7fc, 0x7f8, 0x7e0, 0x700, 0x400, 0x000}
	if !c.Thorough() {
		freqs = []int{0x7ff, 0x7fe, 0x7fc, 0x7e0, 0x400}
	}
	type dist struct {
		name string
		do   func(m *machine.Machine, ch, f int)
	}
	trig := func(m *machine.Machine, ch, f int) {
		base := 0xff10 + 5*ch
		m.M.Write(uint16(base+3), uint8(f&0xff))
		m.M.Write(uint16(base+4), uint8(0x80|f>>8&7))
	}
	dists := []dist{
		{"retrigger", trig},
		{"dac", func(m *machine.Machine, ch, f int) {
			a := []int{0xff12, 0xff17, 0xff1a, 0xff21}[ch]
			m.M.Write(uint16(a), 0x00)
			m.M.Write(uint16(a), 0xf0)
			trig(m, ch, f)
		}},
		{"power", func(m *machine.Machine, ch, f int) {
			m.M.Write(0xff26, 0x00)
			m.M.Write(0xff26, 0x80)
			trig(m, ch, f)
		}},
		{"rewrite", func(m *machine.Machine, ch, f int) {
			base := 0xff10 + 5*ch
			m.M.Write(uint16(base+3), uint8(f>>3))
			m.M.Write(uint16(base+1), uint8(f))
			m.M.Write(uint16(base+2), uint8(f|0x08))
			for i := 0; i < 16; i++ {
				m.M.Write(uint16(0xff30+i), uint8(f+i))
			}
			for i := 0; i < 16; i++ {
				m.M.Read(uint16(0xff30 + i))
			}
		}},
	}
	for ch := 0; ch < 4; ch++ {
		for _, f := range freqs {
			for _, d := range dists {
				for delay := 0; delay <= maxDelay; delay++ {
					sc := &trace.Scenario{ID: fmt.Sprintf("crash-apu-ch%d-f%03x-%s-%d", ch+1, f, d.name, delay), Reset: map[string]any{"fam": "apu", "ch": ch, "f": f, "what": d.name, "delay": delay}}
					// sample channels attached (every other delay): the mixer runs too. No NRx1 write and no power cycle before
					// the first trigger: a channel must be usable straight from the power-on state.
					m := machine.New(intROM, machine.Options{NoCPU: true, Audio: delay%2 == 0})
					sc.Ev = append(sc.Ev, []any{"ctor", 1})
					cycles := 0
					perr := machine.Try(func() {
						m.M.Write(0xff26, 0x80)
						m.M.Write(0xff25, 0xff)
						m.M.Write(0xff24, 0x77)
						for i := 0; i < 16; i++ {
							m.M.Write(uint16(0xff30+i), uint8(0x10*i+15-i))
						}
						m.M.Write(0xff10, 0x11)
						m.M.Write(0xff12, 0xf3)
						m.M.Write(0xff17, 0xf3)
						m.M.Write(0xff1a, 0x80)
						m.M.Write(0xff1c, 0x20)
						m.M.Write(0xff21, 0xf3)
						m.M.Write(0xff22, uint8(f))
						trig(m, ch, f)
						for i := 0; i < delay; i++ {
							m.Hardware()
							m.Drain()
							cycles++
						}
						d.do(m, ch, f)
						for i := 0; i < 60; i++ {
							m.Hardware()
							m.Drain()
							cycles++
						}
					})
					sc.Ev = append(sc.Ev, []any{"ops", cycles})
					if perr != "" {
						sc.Ev = append(sc.Ev, []any{"panic", perr})
					}
					w.Put(sc)
				}
			}
		}
	}
}

// crashRerun: the scenarios are regenerated from their family with the same seed; the ids select which to keep.
func crashRerun(c *Ctx) {
	scs, err := trace.ReadAll(c.In)
	if err != nil {
		die("%v", err)
	}
	want := map[string]bool{}
	fams := map[string]bool{}
	for _, s := range scs {
		want[s.ID] = true
		if rm, ok := s.Reset.(map[string]any); ok {
			fams[trace.Str(rm["fam"])] = true
		}
	}
	tmp, _ := os.MkdirTemp(c.Out, "regen")
	cc := *c
	cc.Out = tmp
	cc.Fam = ""
	// regenerate (deterministic for a given tier/seed) and filter
	w := trace.NewWriter(c.Out, "crash-rerun", 1<<30)
	for fam := range fams {
		cc.Fam = fam
		ww := trace.NewWriter(tmp, "regen-"+fam, 1<<30)
		ww.Quiet = true
		switch fam {
		case "images":
			crashImages(&cc, ww)
		case "ctl":
			crashCtl(&cc, ww)
		case "bus":
			crashBus(&cc, ww)
		case "oam":
			crashOam(&cc, ww)
		case "prog":
			crashProg(&cc, ww)
		case "apu":
			crashApu(&cc, ww)
		}
		ww.Close()
		for _, f := range ww.Files {
			all, _ := trace.ReadAll(f)
			for _, s := range all {
				if want[s.ID] {
					w.Put(s)
				}
			}
		}
	}
	os.RemoveAll(tmp)
	w.Close()
}
