package drivers

import (
	"fmt"
	"math/rand"
	"sync"

	"verif/harness/machine"
	"verif/harness/trace"
)

func init() { Registry["mbc"] = mbcMain }

type cartSpec struct {
	kind    string
	typ     int
	romSize int
	ramSize int
	timer   bool
}

func (c cartSpec) romBanks() int { return 2 << c.romSize }
func (c cartSpec) ramBanks() int {
	if c.kind == "mbc2" {
		return 1
	}
	switch c.ramSize {
	case 3:
		return 4
	case 4:
		return 16
	case 5:
		return 8
	}
	return 1
}
func (c cartSpec) reset() []any {
	return []any{c.kind, c.romBanks(), c.ramBanks(), trace.B2I(c.timer)}
}
func (c cartSpec) String() string {
	return fmt.Sprintf("%s-t%02x-rom%d-ram%d", c.kind, c.typ, c.romSize, c.ramSize)
}

var romCache = map[[3]int][]byte{}
var romCacheMu sync.Mutex

func cartImage(c cartSpec) []byte {
	romCacheMu.Lock()
	defer romCacheMu.Unlock()
	k := [3]int{c.typ, c.romSize, c.ramSize}
	if img, ok := romCache[k]; ok {
		return img
	}
	img := machine.Cart(byte(c.typ), byte(c.romSize), byte(c.ramSize))
	romCache[k] = img
	return img
}

// mbcOp is one bus operation: kind w/r/dump
type mbcOp struct {
	k    string
	addr int
	v    int
}

// mbcExec builds a fresh machine for the cartridge and performs the
// operations through the real Mapper. Any panic is recorded and ends the
// scenario. ok=false when construction itself failed.
func mbcExec(id string, c cartSpec, ops []mbcOp, wroteOffsets map[int]bool) (*trace.Scenario, bool) {
	var m *machine.Machine
	if perr := machine.Try(func() { m = machine.New(cartImage(c), machine.Options{NoCPU: true}) }); perr != "" {
		return nil, false
	}
	sc := &trace.Scenario{ID: id, Reset: c.reset()}
	for _, o := range ops {
		var ev []any
		perr := machine.Try(func() {
			switch o.k {
			case "w":
				m.M.Write(uint16(o.addr), uint8(o.v))
				ev = []any{"w", o.addr, o.v}
			case "r":
				ev = []any{"r", o.addr, int(m.M.Read(uint16(o.addr)))}
			case "dump":
				d := m.M.DumpRAM()
				sc.Ev = append(sc.Ev, []any{"dl", len(d)})
				step := 8192
				if c.kind == "mbc2" {
					step = 512
				}
				for off := range wroteOffsets {
					for base := 0; base+off < len(d); base += step {
						sc.Ev = append(sc.Ev, []any{"d", base + off%step, int(d[base+off%step])})
					}
				}
			}
		})
		if perr != "" {
			sc.Ev = append(sc.Ev, []any{"panic", fmt.Sprintf("%s %04x %02x: %s", o.k, o.addr, o.v, perr)})
			return sc, true
		}
		if ev != nil {
			sc.Ev = append(sc.Ev, ev)
		}
	}
	return sc, true
}

// signature read offsets inside a window (multiples of 4 give the page number; +1 the high part)
var sigOffs = []int{0x0000, 0x0001, 0x2ffc, 0x3ffd, 0x3fff}

func windowReads(rng *rand.Rand) []mbcOp {
	a := sigOffs[rng.Intn(len(sigOffs))] &^ 3
	b := 0x400 + rng.Intn(0x3b00)
	return []mbcOp{{"r", a, 0}, {"r", a + 1, 0}, {"r", b, 0}, {"r", 0x4000 + a, 0}, {"r", 0x4000 + a + 1, 0}, {"r", 0x4000 + b, 0}}
}

func mbcCarts(c *Ctx, forRAM bool) []cartSpec {
	var out []cartSpec
	add := func(kind string, typ int, roms []int, rams []int, timer bool) {
		for _, r := range roms {
			for _, ra := range rams {
				out = append(out, cartSpec{kind, typ, r, ra, timer})
			}
		}
	}
	th := c.Thorough()
	pick := func(all []int, quick []int) []int {
		if th {
			return all
		}
		return quick
	}
	if forRAM {
		// a ROM-only cartridge whose image is larger than the two pages it can show still has nothing behind A000-BFFF
		add("none", 0x00, []int{0, 1, 2}, []int{0}, false)
		add("mbc1", 0x03, pick([]int{0, 3, 6}, []int{2}), pick([]int{0, 1, 2, 3}, []int{0, 3}), false)
		add("mbc1", 0x02, []int{1}, pick([]int{2, 3}, []int{2}), false)
		add("mbc2", 0x06, pick([]int{0, 3}, []int{1}), []int{0}, false)
		add("mbc2", 0x05, []int{1}, []int{0}, false)
		add("mbc3", 0x13, pick([]int{0, 4, 6}, []int{3}), pick([]int{0, 2, 3}, []int{0, 3}), false)
		add("mbc3", 0x10, []int{2}, pick([]int{2, 3}, []int{3}), true)
		add("mbc5", 0x1b, pick([]int{0, 5, 8}, []int{3}), pick([]int{0, 2, 3, 4, 5}, []int{0, 3, 4}), false)
		add("mbc5", 0x1e, []int{1}, pick([]int{3, 5}, []int{5}), false)
		return out
	}
	add("none", 0x00, []int{0, 2}, []int{0}, false)
	add("mbc1", 0x01, pick([]int{0, 1, 2, 3, 4, 5, 6}, []int{0, 3, 6}), []int{0}, false)
	add("mbc1", 0x03, pick([]int{2, 5}, []int{4}), []int{3}, false)
	add("mbc2", 0x05, pick([]int{0, 1, 2, 3}, []int{0, 3}), []int{0}, false)
	add("mbc3", 0x11, pick([]int{0, 1, 2, 3, 4, 5, 6}, []int{1, 6}), []int{0}, false)
	add("mbc3", 0x0f, pick([]int{3, 6}, []int{5}), []int{0}, true)
	add("mbc5", 0x19, pick([]int{0, 1, 2, 3, 4, 5, 6, 7, 8}, []int{0, 4, 8}), []int{0}, false)
	add("mbc5", 0x1c, pick([]int{2, 7}, []int{6}), []int{3}, false)
	return out
}

func mbcMain(c *Ctx) {
	switch c.Mode {
	case "gen":
		mbcGen(c)
	case "rerun":
		mbcRerun(c)
	case "legc":
		mbcLegC(c)
	default:
		die("mbc: unknown mode %s", c.Mode)
	}
}

func ctlAddrs(kind string, rng *rand.Rand, thorough bool) []int {
	var a []int
	if kind == "mbc2" {
		a = []int{0x0000, 0x00ff, 0x0100, 0x01ff, 0x2100, 0x3eff, 0x3fff, 0x4000, 0x7fff}
	} else {
		a = []int{0x0000, 0x1fff, 0x2000, 0x2fff, 0x3000, 0x3fff, 0x4000, 0x5fff, 0x6000, 0x7fff}
	}
	if thorough {
		for i := 0; i < 6; i++ {
			a = append(a, rng.Intn(0x8000))
		}
	}
	return a
}

func mbcGen(c *Ctx) {
	w := trace.NewWriter(c.Out, "mbc", 80000)
	n, ctorFail := 0, 0
	emit := func(fam string, cs cartSpec, ops []mbcOp, wrote map[int]bool) {
		sc, ok := mbcExec(fmt.Sprintf("mbc-%s-%s-%d", fam, cs, n), cs, ops, wrote)
		n++
		if !ok {
			ctorFail++
			return
		}
		w.Put(sc)
	}
	if c.Want("rom1") {
		// exhaustive single writes: every value on representative addresses of every control region, windows read after each
		rng := c.Rand(801)
		for _, cs := range mbcCarts(c, false) {
			for _, a := range ctlAddrs(cs.kind, rng, c.Thorough()) {
				for blk := 0; blk < 256; blk += 32 {
					var ops []mbcOp
					for v := blk; v < blk+32; v++ {
						ops = append(ops, mbcOp{"w", a, v})
						ops = append(ops, windowReads(rng)...)
					}
					emit("rom1", cs, ops, nil)
				}
			}
		}
	}
	if c.Want("mbc1") {
		// all MBC1 (bank1, bank2, mode) triples
		rng := c.Rand(802)
		for _, cs := range mbcCarts(c, false) {
			if cs.kind != "mbc1" {
				continue
			}
			for mode := 0; mode < 2; mode++ {
				for b2 := 0; b2 < 4; b2++ {
					var ops []mbcOp
					for b1 := 0; b1 < 32; b1++ {
						ops = append(ops, mbcOp{"w", 0x6000 + rng.Intn(0x2000), mode | rng.Intn(128)<<1}, mbcOp{"w", 0x4000 + rng.Intn(0x2000), b2 | rng.Intn(64)<<2}, mbcOp{"w", 0x2000 + rng.Intn(0x2000), b1 | rng.Intn(8)<<5})
						ops = append(ops, windowReads(rng)...)
					}
					emit("mbc1", cs, ops, nil)
				}
			}
		}
	}
	if c.Want("romseq") {
		// random control-write sequences
		rng := c.Rand(803)
		count := 6
		if c.Thorough() {
			count = 40
		}
		for _, cs := range mbcCarts(c, false) {
			for i := 0; i < count; i++ {
				var ops []mbcOp
				for j := 0; j < 60; j++ {
					ops = append(ops, mbcOp{"w", rng.Intn(0x8000), rng.Intn(256)})
					ops = append(ops, windowReads(rng)...)
				}
				emit("romseq", cs, ops, nil)
			}
		}
	}
	if c.Want("ram") {
		// random enable / bank select / read / write sequences over the RAM window, dump at the end
		rng := c.Rand(804)
		count := 12
		if c.Thorough() {
			count = 120
		}
		for _, cs := range mbcCarts(c, true) {
			for i := 0; i < count; i++ {
				var ops []mbcOp
				wrote := map[int]bool{}
				offs := []int{0x0000, 0x0001, 0x01ff, 0x0200, 0x0fff, 0x1000, 0x1ffe, 0x1fff}
				for len(offs) < 14 {
					offs = append(offs, rng.Intn(0x2000))
				}
				for j := 0; j < 150; j++ {
					switch r := rng.Intn(20); {
					case r < 2:
						v := []int{0x0a, 0x00, 0x1a, 0xfa, 0x0b, 0xa0, 0x0a, 0x0a}[rng.Intn(8)]
						a := rng.Intn(0x2000)
						if cs.kind == "mbc2" {
							a = rng.Intn(0x4000) &^ 0x100
						}
						ops = append(ops, mbcOp{"w", a, v})
					case r < 5:
						// RAM bank / mode / ROM bank registers, including out-of-range numbers
						v := rng.Intn(256)
						if rng.Intn(3) > 0 {
							v = rng.Intn(8)
						}
						if cs.timer && rng.Intn(6) > 0 {
							v &= 7 // leave the clock registers mostly to the RTC check
						}
						ops = append(ops, mbcOp{"w", 0x2000 + rng.Intn(0x6000), v})
					case r < 12:
						o := offs[rng.Intn(len(offs))]
						wrote[o] = true
						ops = append(ops, mbcOp{"w", 0xa000 + o, rng.Intn(256)})
					default:
						ops = append(ops, mbcOp{"r", 0xa000 + offs[rng.Intn(len(offs))], 0})
					}
				}
				ops = append(ops, mbcOp{"dump", 0, 0})
				emit("ram", cs, ops, wrote)
			}
		}
	}
	w.Close()
	fmt.Printf("INFO {\"constructor_failures\": %d}\n", ctorFail)
}

func mbcRerun(c *Ctx) {
	scs, err := trace.ReadAll(c.In)
	if err != nil {
		die("%v", err)
	}
	w := trace.NewWriter(c.Out, "mbc-rerun", 1<<30)
	for _, s := range scs {
		r := s.Reset.([]any)
		// the cartridge is recovered from the scenario id (kind-tTT-romN-ramM)
		var cs cartSpec
		var kind string
		var typ, rom, ram int
		var fam string
		_ = fam
		id := s.ID
		found := false
		for i := 0; i+4 < len(id); i++ {
			if _, err := fmt.Sscanf(id[i:], "-t%02x-rom%d-ram%d", &typ, &rom, &ram); err == nil {
				found = true
				break
			}
		}
		if !found {
			die("cannot parse cartridge from id %s", id)
		}
		kind = trace.Str(r[0])
		cs = cartSpec{kind, typ, rom, ram, trace.Int(r[3]) == 1}
		var ops []mbcOp
		wrote := map[int]bool{}
		dumped := false
		for _, e := range s.Ev {
			switch trace.Str(e[0]) {
			case "w":
				a := trace.Int(e[1])
				if a >= 0xa000 {
					wrote[a-0xa000] = true
				}
				ops = append(ops, mbcOp{"w", a, trace.Int(e[2])})
			case "r":
				ops = append(ops, mbcOp{"r", trace.Int(e[1]), 0})
			case "dl":
				if !dumped {
					ops = append(ops, mbcOp{"dump", 0, 0})
					dumped = true
				}
			case "panic":
				// the operation that panicked is re-derived from its description
				var k string
				var a, v int
				fmt.Sscanf(trace.Str(e[1]), "%s %04x %02x", &k, &a, &v)
				ops = append(ops, mbcOp{k, a, v})
			}
		}
		sc, ok := mbcExec(s.ID, cs, ops, wrote)
		if ok {
			w.Put(sc)
		}
	}
	w.Close()
}
