package drivers

import (
	"fmt"
	"math/rand"
	"os"
	"path/filepath"

	"github.com/scottyw/tetromino/gameboy/memory"

	"verif/harness/machine"
	"verif/harness/trace"
)

// ---- C19: status bits / length counters -------------------------------------------------

type lenOp struct {
	w    bool
	addr int
	v    int
	n    int // ticks
}

// lenRun executes writes and tick runs, reading NR52 after every machine cycle; tick runs are
// split wherever the status nibble changes.
func lenRun(id, fam string, seed int64, ops []lenOp) *trace.Scenario {
	m := machine.New(intROM, machine.Options{NoCPU: true})
	sc := &trace.Scenario{ID: id, Reset: []any{fam, seed}}
	perr := machine.Try(func() {
		for _, o := range ops {
			if o.w {
				m.M.Write(uint16(o.addr), uint8(o.v))
				sc.Ev = append(sc.Ev, []any{1, o.addr, o.v, int(m.M.Read(0xff26))})
				continue
			}
			run := 0
			prev := int(m.M.Read(0xff26))
			for i := 0; i < o.n; i++ {
				m.Hardware()
				run++
				cur := int(m.M.Read(0xff26))
				if cur != prev {
					sc.Ev = append(sc.Ev, []any{0, run, cur})
					run = 0
					prev = cur
				}
			}
			if run > 0 {
				sc.Ev = append(sc.Ev, []any{0, run, prev})
			}
		}
	})
	if perr != "" {
		sc.Ev = append(sc.Ev, []any{"panic", perr})
	}
	return sc
}

func lenPreamble(rng *rand.Rand) []lenOp {
	return []lenOp{
		{w: true, addr: 0xff11, v: rng.Intn(256)}, {w: true, addr: 0xff16, v: rng.Intn(256)},
		{w: true, addr: 0xff1b, v: rng.Intn(256)}, {w: true, addr: 0xff20, v: rng.Intn(256)},
		{w: true, addr: 0xff26, v: 0x00}, {w: true, addr: 0xff26, v: 0x80},
	}
}

func lenSchedule(rng *rand.Rand, n int) []lenOp {
	// half of the schedules use length data close to the maximum and waits of a few length clocks, so that
	// counters expire, get re-armed and re-triggered many times within one scenario
	short := rng.Intn(2) == 0
	ops := lenPreamble(rng)
	ops = append(ops, lenOp{n: rng.Intn(4096)}) // every frame-sequencer phase
	nrx1 := []int{0xff11, 0xff16, 0xff1b, 0xff20}
	nrx2 := []int{0xff12, 0xff17, 0xff1a, 0xff21}
	nrx4 := []int{0xff14, 0xff19, 0xff1e, 0xff23}
	for i := 0; i < n; i++ {
		c := rng.Intn(4)
		switch r := rng.Intn(20); {
		case r < 4:
			v := rng.Intn(256)
			if rng.Intn(2) == 0 {
				v = []int{0x3f, 0x3e, 0x00, 0xff, 0xfe, 0x01}[rng.Intn(6)]
			}
			if short {
				v = v&0xc0 | 0x3c + rng.Intn(4)
				if c == 2 {
					v = 0xfc + rng.Intn(4)
				}
			}
			ops = append(ops, lenOp{w: true, addr: nrx1[c], v: v})
		case r < 7:
			v := []int{0x00, 0x07, 0x08, 0xf0, 0x10, 0x80, 0xff}[rng.Intn(7)]
			ops = append(ops, lenOp{w: true, addr: nrx2[c], v: v})
		case r < 12:
			v := []int{0x80, 0xc0, 0x40, 0x00}[rng.Intn(4)] | rng.Intn(8)
			ops = append(ops, lenOp{w: true, addr: nrx4[c], v: v})
		case r < 13:
			ops = append(ops, lenOp{w: true, addr: 0xff10, v: rng.Intn(256)})
		case r < 14:
			ops = append(ops, lenOp{w: true, addr: 0xff13, v: rng.Intn(256)})
		case r < 15:
			ops = append(ops, lenOp{w: true, addr: 0xff26, v: []int{0x00, 0x80}[rng.Intn(2)]})
		default:
			n := 1 + rng.Intn(40)
			switch rng.Intn(4) {
			case 0:
				n = 1 + rng.Intn(3000)
			case 1:
				n = 4000 + rng.Intn(9000)
			}
			if short && rng.Intn(2) == 0 {
				n = 4096 * (1 + rng.Intn(3))
			}
			ops = append(ops, lenOp{n: n})
		}
	}
	ops = append(ops, lenOp{n: 20000})
	return ops
}

// lenExact: a channel triggered with length data t and length enabled must stay on exactly 64-t (256-t) length clocks
func lenExact(rng *rand.Rand, idx int) []lenOp {
	ops := lenPreamble(rng)
	ops = append(ops, lenOp{n: rng.Intn(4096)})
	c := idx % 4
	nrx1 := []int{0xff11, 0xff16, 0xff1b, 0xff20}[c]
	nrx2 := []int{0xff12, 0xff17, 0xff1a, 0xff21}[c]
	nrx4 := []int{0xff14, 0xff19, 0xff1e, 0xff23}[c]
	// the first scenarios enumerate channel x way of arming x boundary length data, later ones are random
	t := rng.Intn(256)
	if idx < 60 {
		t = []int{0x00, 0xff, 0x3f, 0x40, 0xc0}[(idx/12)%5]
	}
	switch (idx / 4) % 4 {
	case 3:
		// armed with length enabled, the power switched off for a while (the sequencer goes on, the counters keep their
		// value, the enable bits are cleared), on again, triggered with length enabled without rewriting the length
		ops = append(ops, lenOp{w: true, addr: nrx2, v: 0xf0}, lenOp{w: true, addr: nrx1, v: t}, lenOp{w: true, addr: nrx4, v: 0xc0}, lenOp{n: rng.Intn(9000)},
			lenOp{w: true, addr: 0xff26, v: 0x00}, lenOp{n: 2048*rng.Intn(24) + rng.Intn(2048)}, lenOp{w: true, addr: 0xff26, v: 0x80},
			lenOp{n: rng.Intn(5000)}, lenOp{w: true, addr: nrx2, v: 0xf0}, lenOp{w: true, addr: nrx4, v: 0xc0})
	case 0:
		// length data, then trigger with length enabled
		ops = append(ops, lenOp{w: true, addr: nrx2, v: 0xf0}, lenOp{w: true, addr: nrx1, v: t})
		if rng.Intn(2) == 0 {
			ops = append(ops, lenOp{n: rng.Intn(5000)})
		}
		ops = append(ops, lenOp{w: true, addr: nrx4, v: 0xc0})
	case 1:
		// the channel already plays without length; the counter is then written and enabled without a trigger
		ops = append(ops, lenOp{w: true, addr: nrx2, v: 0xf0}, lenOp{w: true, addr: nrx4, v: 0x80}, lenOp{n: rng.Intn(9000)},
			lenOp{w: true, addr: nrx1, v: t}, lenOp{n: rng.Intn(3000)}, lenOp{w: true, addr: nrx4, v: 0x40})
	default:
		// expire, trigger with the DAC off and length enabled, wait k length clocks, DAC on, trigger again without rewriting the length
		k := rng.Intn(12)
		ops = append(ops, lenOp{w: true, addr: nrx2, v: 0xf0}, lenOp{w: true, addr: nrx1, v: 0xff}, lenOp{w: true, addr: nrx4, v: 0xc0}, lenOp{n: 9000},
			lenOp{w: true, addr: nrx2, v: 0x00}, lenOp{w: true, addr: nrx4, v: 0xc0}, lenOp{n: 4096*k + rng.Intn(4096)},
			lenOp{w: true, addr: nrx2, v: 0xf0}, lenOp{w: true, addr: nrx4, v: 0xc0})
	}
	max := 64
	if c == 2 {
		max = 256
	}
	ops = append(ops, lenOp{n: (max + 2) * 4096})
	return ops
}

// lenSweep: channel 1's status bit and the sweep unit: calculations in negate mode before and after a trigger, NR10
// rewritten with the negate bit cleared (which switches the channel off only if a calculation has used negate mode
// since the last trigger), add mode close to the overflow
func lenSweep(rng *rand.Rand, idx int) []lenOp {
	W := func(a, v int) lenOp { return lenOp{w: true, addr: a, v: v} }
	ops := lenPreamble(rng)
	ops = append(ops, lenOp{n: rng.Intn(4096)})
	p := 1 + rng.Intn(3)
	sh := []int{0, 0, 1, 3, 7}[idx%5]
	neg := 8
	if idx%7 == 6 {
		neg = 0
	}
	f := []int{0x400, 0x7ff, 0x700, 0x100, 0x555}[rng.Intn(5)]
	nr10 := p<<4 | neg | sh
	ops = append(ops, W(0xff12, 0xf0), W(0xff10, nr10), W(0xff13, f&0xff), W(0xff14, 0x80|f>>8))
	// some sweep periods: calculations happen (or, with the short waits, do not)
	ops = append(ops, lenOp{n: 4096 * 2 * p * rng.Intn(3)}, lenOp{n: rng.Intn(8192)})
	exit := (rng.Intn(8) << 4) | []int{0, 0, 1, 7}[rng.Intn(4)] // negate cleared
	switch (idx / 5) % 5 {
	case 0:
		// triggered again with the same NR10, negate cleared at once
		ops = append(ops, W(0xff14, 0x80|f>>8), W(0xff10, exit))
	case 1:
		// shift 0 while it is triggered again (no calculation at the trigger), negate cleared before the next sweep clock
		ops = append(ops, W(0xff10, p<<4|8), W(0xff14, 0x80|f>>8), lenOp{n: rng.Intn(2000)}, W(0xff10, exit))
	case 2:
		// not triggered again
		ops = append(ops, W(0xff10, exit))
	case 3:
		// triggered again, at least one more sweep period, negate cleared
		ops = append(ops, W(0xff14, 0x80|f>>8), lenOp{n: 4096*2*p + rng.Intn(8192)}, W(0xff10, exit))
	default:
		// negate rewritten as it is (nothing happens), then cleared, then set again
		ops = append(ops, W(0xff10, nr10|8), lenOp{n: rng.Intn(3000)}, W(0xff14, 0x80|f>>8), W(0xff10, nr10|8), W(0xff10, exit), W(0xff10, nr10|8))
	}
	ops = append(ops, lenOp{n: 3000}, W(0xff14, 0x80|f>>8), lenOp{n: 20000})
	return ops
}

// lenROM: a sound test ROM on the full machine. The harness first defines the length counters and cycles the power
// (as every scenario of this family does), then the ROM runs; every CPU write to FF10-FF26 is logged with NR52 read
// right after it (before the hardware part of that cycle), and NR52 is read after every cycle, run-length compressed.
func lenROM(id, rom string, cycles int) *trace.Scenario {
	sc := &trace.Scenario{ID: id, Reset: []any{"lenrom", 0, rom, cycles}}
	perr := machine.Try(func() {
		img, err := os.ReadFile(rom)
		if err != nil {
			panic(err)
		}
		m := machine.New(img, machine.Options{})
		rng := rand.New(rand.NewSource(1))
		for _, o := range lenPreamble(rng) {
			m.M.Write(uint16(o.addr), uint8(o.v))
			sc.Ev = append(sc.Ev, []any{1, o.addr, o.v, int(m.M.VerifPeek(0xff26))})
		}
		type wr struct{ a, v int }
		var pending []wr
		on := false
		memory.VerifBusObserver = func(mm *memory.Mapper, write bool, addr uint16, value uint8) {
			if on && mm == m.M && write && addr >= 0xff10 && addr <= 0xff26 {
				pending = append(pending, wr{int(addr), int(value)})
			}
		}
		defer func() { memory.VerifBusObserver = nil }()
		run := 0
		prev := int(m.M.VerifPeek(0xff26))
		flush := func() {
			if run > 0 {
				sc.Ev = append(sc.Ev, []any{0, run, prev})
				run = 0
			}
		}
		for i := 0; i < cycles; i++ {
			pending = pending[:0]
			on = true
			m.CPU.ExecuteMachineCycle()
			on = false
			if len(pending) > 0 {
				flush()
				for _, p := range pending {
					// at most one write per machine cycle: NR52 right after it
					prev = int(m.M.VerifPeek(0xff26))
					sc.Ev = append(sc.Ev, []any{1, p.a, p.v, prev})
				}
			}
			m.Hardware()
			run++
			cur := int(m.M.VerifPeek(0xff26))
			if cur != prev {
				sc.Ev = append(sc.Ev, []any{0, run, cur})
				run = 0
				prev = cur
			}
		}
		flush()
	})
	if perr != "" {
		sc.Ev = append(sc.Ev, []any{"panic", perr})
	}
	return sc
}

func apuGenOther(c *Ctx, w *trace.Writer) {
	if c.Want("lencal") {
		// calibration of the frame sequencer phase: length 1, enable, trigger, tick until the status drops
		rng := c.Rand(1900)
		ops := lenPreamble(rng)
		ops = append(ops, lenOp{w: true, addr: 0xff17, v: 0xf0}, lenOp{w: true, addr: 0xff16, v: 0x3f}, lenOp{w: true, addr: 0xff19, v: 0xc0}, lenOp{n: 9000})
		w.Put(lenRun("apu-lencal-0", "lencal", 0, ops))
	}
	if c.Want("len") {
		rng := c.Rand(1901)
		count := 400
		if c.Thorough() {
			count = 12000
		}
		for i := 0; i < count; i++ {
			seed := rng.Int63n(1 << 40)
			if i%5 == 4 || i%5 == 2 {
				seed &= 1<<34 - 1 // seed and index travel in one JSON number (exact below 2^53)
			}
			r2 := rand.New(rand.NewSource(seed))
			if i%5 == 4 {
				w.Put(lenRun(fmt.Sprintf("apu-len-%d", i), "lenexact", seed*100000+int64(i/5), lenExact(r2, i/5)))
			} else if i%5 == 2 {
				w.Put(lenRun(fmt.Sprintf("apu-len-%d", i), "lensweep", seed*100000+int64(i/5), lenSweep(r2, i/5)))
			} else {
				w.Put(lenRun(fmt.Sprintf("apu-len-%d", i), "len", seed, lenSchedule(r2, 40)))
			}
		}
	}
	if c.Want("len") {
		// the blargg dmg_sound ROMs as program traces
		base := filepath.Join(repoDir(), "gameboy", "testdata", "blargg", "dmg_sound", "rom_singles")
		roms := []string{"02-len ctr.gb", "03-trigger.gb", "04-sweep.gb", "05-sweep details.gb", "07-len sweep period sync.gb", "08-len ctr during power.gb", "01-registers.gb", "11-regs after power.gb"}
		nr, cyc := 2, 1500000
		if c.Thorough() {
			nr, cyc = len(roms), 12000000
		}
		for i := 0; i < nr; i++ {
			p := filepath.Join(base, roms[(i+int(c.Seed))%len(roms)])
			if _, err := os.Stat(p); err == nil {
				w.Put(lenROM(fmt.Sprintf("apu-lenrom-%d", i), p, cyc))
			}
		}
	}
	apuGenSamples(c, w)
}

func apuRerunOther(c *Ctx, w *trace.Writer, s *trace.Scenario) {
	r := s.Reset.([]any)
	fam := trace.Str(r[0])
	seed := int64(trace.Int(r[1]))
	switch fam {
	case "len":
		w.Put(lenRun(s.ID, fam, seed, lenSchedule(rand.New(rand.NewSource(seed)), 40)))
	case "lenexact":
		w.Put(lenRun(s.ID, fam, seed, lenExact(rand.New(rand.NewSource(seed/100000)), int(seed%100000))))
	case "lensweep":
		w.Put(lenRun(s.ID, fam, seed, lenSweep(rand.New(rand.NewSource(seed/100000)), int(seed%100000))))
	case "lenrom":
		w.Put(lenROM(s.ID, trace.Str(r[2]), trace.Int(r[3])))
	case "lencal":
		rng := c.Rand(1900)
		ops := lenPreamble(rng)
		ops = append(ops, lenOp{w: true, addr: 0xff17, v: 0xf0}, lenOp{w: true, addr: 0xff16, v: 0x3f}, lenOp{w: true, addr: 0xff19, v: 0xc0}, lenOp{n: 9000})
		w.Put(lenRun(s.ID, fam, 0, ops))
	default:
		apuRerunSamples(c, w, s)
	}
}
