package drivers

import (
	"fmt"
	"math/rand"

	"verif/harness/machine"
	"verif/harness/trace"
)

func init() { Registry["dma"] = dmaMain }

// A DMA scenario is described by its seed and parameters only (rerun regenerates it).
type dmaJob struct {
	id       string
	seed     int64
	page     int
	restarts int  // number of restarts of the running transfer
	mutate   bool // rewrite source bytes while the transfer runs
	lcdOff   bool
	every    bool // restart at a fixed cycle `at` instead of random
	at       int
	alt      int  // restarts alternate between page and this page (0: always the same page)
	rtcHalt  bool // clock cartridge (MBC3) with its clock halted: the transfer is none of the clock's business
}

func dmaRun(j dmaJob) *trace.Scenario {
	rng := rand.New(rand.NewSource(j.seed))
	cart := memCart
	if j.rtcHalt {
		cart = rtcCart
	}
	m := machine.New(cartImage(cart), machine.Options{NoCPU: true})
	// OAM is prepared with the LCD off; an LCD-on scenario switches it on again afterwards (see below)
	m.QuietLCD()
	if rng.Intn(3) > 0 {
		m.M.Write(0x0000, 0x0a) // cartridge RAM enabled (else A000-BFFF sources read FF)
	}
	if j.rtcHalt {
		m.M.Write(0x0000, 0x0a)
		m.M.Write(0x4000, 0x0c)
		m.M.Write(0xa000, 0x40) // halt bit of the clock's control register
		m.M.Write(0x4000, 0x00)
	}
	sc := &trace.Scenario{ID: j.id, Reset: []any{j.seed, j.page, j.restarts, trace.B2I(j.mutate), trace.B2I(j.lcdOff), trace.B2I(j.every), j.at, j.alt, trace.B2I(j.rtcHalt)}}
	perr := machine.Try(func() {
		base := j.page << 8
		// randomise the source where it is writable
		for i := 0; i < 160; i++ {
			m.M.Write(uint16(base+i), uint8(rng.Intn(256)))
		}
		// and OAM itself
		for i := 0; i < 160; i++ {
			m.M.Write(uint16(0xfe00+i), uint8(rng.Intn(256)))
			sc.Ev = append(sc.Ev, []any{"w", 0xfe00 + i, int(m.M.Read(uint16(0xfe00 + i)))})
		}
		if !j.lcdOff {
			// LCD on, the transfer starting at a random point of a frame: every CPU access is followed by what the CPU
			// does after it (oam.Corrupt applies whatever the access armed) - an access blocked by the transfer must arm nothing
			m.P.WriteLCDC(0x91)
			for k := rng.Intn(17556); k > 0; k-- {
				m.P.EndMachineCycle()
			}
		}
		if j.alt != 0 {
			for i := 0; i < 160; i++ {
				m.M.Write(uint16(j.alt<<8+i), uint8(rng.Intn(256)))
			}
		}
		cur := j.page
		srcNow := func() []int {
			s := make([]int, 160)
			for i := range s {
				s[i] = int(m.M.Read(uint16(cur<<8 + i)))
			}
			return s
		}
		nstart := 0
		start := func() {
			// a restart may name another page: the transfer under way is abandoned altogether
			if j.alt != 0 && nstart%2 == 1 {
				cur = j.alt
			} else {
				cur = j.page
			}
			nstart++
			src := srcNow()
			m.M.Write(0xff46, uint8(cur))
			sc.Ev = append(sc.Ev, []any{"dma", cur, src})
		}
		start()
		restartsLeft := j.restarts
		sinceStart := 0
		for t := 0; t < 340+200*j.restarts; t++ {
			if j.mutate && sinceStart < 170 && rng.Intn(6) == 0 {
				i := rng.Intn(160)
				m.M.Write(uint16(cur<<8+i), uint8(rng.Intn(256)))
				sc.Ev = append(sc.Ev, []any{"sw", i, int(m.M.Read(uint16(cur<<8 + i)))})
			}
			if restartsLeft > 0 && ((j.every && sinceStart == j.at) || (!j.every && sinceStart > 0 && rng.Intn(90) == 0)) {
				start()
				restartsLeft--
				sinceStart = 0
			}
			m.Hardware()
			sinceStart++
			a := 0xfe00 + (t*7+rng.Intn(3))%0x100
			if busy, _ := m.O.VerifDMA(); !busy && !j.lcdOff {
				// with the LCD on and no transfer running an OAM access belongs to C17 (the OAM bug): time passes only
				sc.Ev = append(sc.Ev, []any{"tk"})
				continue
			}
			v := int(m.M.Read(uint16(a)))
			m.O.Corrupt()
			sc.Ev = append(sc.Ev, []any{"t", a, v})
		}
		// a restart may have come late: let the last transfer finish before OAM is read out
		for t := 0; t < 170; t++ {
			m.Hardware()
			sc.Ev = append(sc.Ev, []any{"tk"})
		}
		all := make([]int, 160)
		snap := m.O.VerifSnapshot()
		for i := range all {
			all[i] = int(snap[i])
		}
		sc.Ev = append(sc.Ev, []any{"oam", all})
	})
	if perr != "" {
		sc.Ev = append(sc.Ev, []any{"panic", perr})
	}
	return sc
}

func dmaMain(c *Ctx) {
	w := trace.NewWriter(c.Out, "dma", 40000)
	if c.Mode == "rerun" {
		scs, err := trace.ReadAll(c.In)
		if err != nil {
			die("%v", err)
		}
		for _, s := range scs {
			r := s.Reset.([]any)
			alt := 0
			if len(r) > 7 {
				alt = trace.Int(r[7])
			}
			w.Put(dmaRun(dmaJob{s.ID, int64(trace.Int(r[0])), trace.Int(r[1]), trace.Int(r[2]), trace.Int(r[3]) == 1, trace.Int(r[4]) == 1, trace.Int(r[5]) == 1, trace.Int(r[6]), alt, len(r) > 8 && trace.Int(r[8]) == 1}))
		}
		w.Close()
		return
	}
	rng := c.Rand(1601)
	var jobs []dmaJob
	n := 0
	add := func(j dmaJob) {
		j.id = fmt.Sprintf("dma-%d-p%02x", n, j.page)
		n++
		j.seed = rng.Int63n(1 << 40)
		jobs = append(jobs, j)
	}
	// every source page 00-F1
	for p := 0; p <= 0xf1; p++ {
		if !c.Thorough() && p%2 != 0 && p != 0xf1 && p != 0xe0 && p != 0xdf && p != 0x7f && p != 0x80 && p != 0x9f && p != 0xa0 && p != 0xbf && p != 0xc0 {
			continue
		}
		add(dmaJob{page: p, lcdOff: p%2 == 0, restarts: rng.Intn(2), mutate: p >= 0xc0 && rng.Intn(2) == 0})
	}
	// on a clock cartridge whose clock is halted
	for _, p := range []int{0xc1, 0xe5, 0x40, 0x85, 0xa0} {
		add(dmaJob{page: p, rtcHalt: true, lcdOff: p%2 == 1, restarts: rng.Intn(2)})
	}
	// restarts at every cycle of the transfer for three pages
	step := 3
	if c.Thorough() {
		step = 1
	}
	for _, p := range []int{0xc1, 0x40, 0xe5} {
		for at := 1; at < 170; at += step {
			add(dmaJob{page: p, restarts: 1, every: true, at: at, lcdOff: true, mutate: at%2 == 0 && p != 0x40})
			if p != 0x40 && (at < 12 || at%3 == 0) {
				// the same, restarted from a different page
				add(dmaJob{page: p, alt: p + 1, restarts: 1 + at%2, every: true, at: at, lcdOff: at%4 != 0})
			}
		}
	}
	results := make([]*trace.Scenario, len(jobs))
	parallel(len(jobs), func(i int) { results[i] = dmaRun(jobs[i]) })
	for _, s := range results {
		w.Put(s)
	}
	w.Close()
}
