// Package machine assembles the real tetromino components with their public
// constructors and steps them in the order gameboy.runFrame uses. It contains
// no model of the hardware: everything observable comes from the repository's
// code.
package machine

import (
	"bytes"
	"fmt"

	"github.com/scottyw/tetromino/gameboy/audio"
	"github.com/scottyw/tetromino/gameboy/controller"
	"github.com/scottyw/tetromino/gameboy/cpu"
	"github.com/scottyw/tetromino/gameboy/interrupts"
	"github.com/scottyw/tetromino/gameboy/memory"
	"github.com/scottyw/tetromino/gameboy/oam"
	"github.com/scottyw/tetromino/gameboy/ppu"
	"github.com/scottyw/tetromino/gameboy/serial"
	"github.com/scottyw/tetromino/gameboy/timer"
)

// Machine is one emulator instance built from the real packages.
type Machine struct {
	I      *interrupts.Interrupts
	O      *oam.OAM
	P      *ppu.PPU
	T      *timer.Timer
	A      *audio.Audio
	C      *controller.Controller
	S      *serial.Serial
	M      *memory.Mapper
	CPU    *cpu.CPU
	L, R   chan float32
	Serial *bytes.Buffer
	Cycles int64
}

// Options configure New.
type Options struct {
	Audio    bool // attach sample channels
	NoSerial bool // no serial writer
	NoCPU    bool // do not create / initialise a CPU (Initialize rebinds package-level tables)
	DebugCPU bool // Config.DebugCPU: the CPU prints a trace line per instruction (to stdout)
	DebugLCD bool // Config.DebugLCD
}

// New builds a machine around the given ROM image. It may panic if the
// repository's constructors panic; callers that care use Try.
func New(rom []byte, o Options) *Machine {
	m := &Machine{}
	m.I = interrupts.New()
	m.O = oam.New()
	if o.Audio {
		m.L = make(chan float32, 64)
		m.R = make(chan float32, 64)
		m.A = audio.New(m.L, m.R)
	} else {
		m.A = audio.New(nil, nil)
	}
	m.P = ppu.New(m.I, m.O, o.DebugLCD)
	if o.NoSerial {
		m.S = serial.New(nil)
	} else {
		m.Serial = &bytes.Buffer{}
		m.S = serial.New(m.Serial)
	}
	m.T = timer.New()
	m.C = controller.New()
	m.M = memory.New(rom, m.I, m.O, m.P, m.C, m.S, m.T, m.A)
	if !o.NoCPU {
		m.CPU = cpu.New(m.I, m.O, o.DebugCPU, m.M)
		m.CPU.Initialize()
	}
	return m
}

// Rebind makes this machine's CPU the owner of the package-level dispatch
// tables again (cpu.Initialize binds them to the receiver).
func (m *Machine) Rebind() {
	if m.CPU != nil {
		m.CPU.Initialize()
	}
}

// Drain empties the sample channels and returns what was in them.
func (m *Machine) Drain() (l, r []float32) {
	if m.L == nil {
		return nil, nil
	}
	for {
		select {
		case v := <-m.L:
			l = append(l, v)
			continue
		default:
		}
		break
	}
	for {
		select {
		case v := <-m.R:
			r = append(r, v)
			continue
		default:
		}
		break
	}
	return
}

// Hardware steps everything except the CPU for one machine cycle, in the
// order of gameboy.runFrame.
func (m *Machine) Hardware() {
	m.P.EndMachineCycle()
	m.M.EndMachineCycle()
	m.A.EndMachineCycle()
	if m.T.EndMachineCycle() {
		m.I.RequestTimer()
	}
	m.Cycles++
}

// Cycle is one machine cycle: CPU first, then the hardware.
func (m *Machine) Cycle() {
	m.CPU.ExecuteMachineCycle()
	m.Hardware()
}

// QuietLCD ticks the PPU until STAT shows mode 3 and then switches the LCD
// off, which is the one way (on any tree) to have the OAM bug logic disarmed
// with the LCD off: mode 3 is never armed.
func (m *Machine) QuietLCD() {
	m.P.WriteLCDC(0x91)
	for i := 0; i < 200; i++ {
		if m.P.ReadSTAT()&3 == 3 {
			break
		}
		m.P.EndMachineCycle()
	}
	m.P.WriteLCDC(m.P.ReadLCDC() & 0x7f)
}

// Try runs f and converts a panic into an error string.
func Try(f func()) (perr string) {
	defer func() {
		if r := recover(); r != nil {
			perr = fmt.Sprint(r)
			if perr == "" {
				perr = "panic"
			}
		}
	}()
	f()
	return ""
}

// BlankROM returns a 32 KiB ROM-only image filled with fill.
func BlankROM(fill byte) []byte {
	rom := make([]byte, 0x8000)
	for i := range rom {
		rom[i] = fill
	}
	rom[0x147] = 0
	rom[0x148] = 0
	rom[0x149] = 0
	return rom
}

// Cart builds a cartridge image of the given type with 2<<romSize pages; each
// 16 KiB page p carries a signature: bytes 0..3 of the page and every 256th
// byte thereafter identify p (see Sig).
func Cart(cartType, romSize, ramSize byte) []byte {
	pages := 2 << romSize
	rom := make([]byte, pages*0x4000)
	for p := 0; p < pages; p++ {
		base := p * 0x4000
		for off := 0; off < 0x4000; off++ {
			rom[base+off] = Sig(p, off)
		}
	}
	rom[0x147] = cartType
	rom[0x148] = romSize
	rom[0x149] = ramSize
	return rom
}

// Sig is the content of offset off of ROM page p in images made by Cart:
// a byte stream in which any 4 consecutive bytes at offsets 4k..4k+3 spell
// the page number and the offset group, so a window read identifies the page.
func Sig(p, off int) byte {
	switch off % 4 {
	case 0:
		return byte(p)
	case 1:
		return byte(p>>8) | 0x40
	case 2:
		return byte(off >> 2)
	default:
		return byte(off>>10) ^ 0xa5
	}
}
