// drv drives the real tetromino packages and records scenarios for TLC.
//
//	drv <block> gen   -tier quick|thorough -seed N -out DIR [-fam name]
//	drv <block> rerun -in FILE -out DIR       (re-execute the inputs of recorded scenarios)
//	drv <block> legc  -in FILE -out FILE      (replay TLC-emitted tests, write mismatches)
package main

import (
	"flag"
	"fmt"
	"os"

	"verif/harness/drivers"
)

func main() {
	if len(os.Args) < 3 {
		fmt.Fprintln(os.Stderr, "usage: drv <block> gen|rerun|legc [flags]")
		os.Exit(2)
	}
	block, mode := os.Args[1], os.Args[2]
	fs := flag.NewFlagSet("drv", flag.ExitOnError)
	var c drivers.Ctx
	fs.StringVar(&c.Tier, "tier", "quick", "quick|thorough")
	fs.Int64Var(&c.Seed, "seed", 1, "seed")
	fs.StringVar(&c.Out, "out", ".", "output directory / file")
	fs.StringVar(&c.In, "in", "", "input file")
	fs.StringVar(&c.Fam, "fam", "", "scenario family (driver specific; empty = all)")
	fs.IntVar(&c.Shard, "shard", 0, "shard index")
	fs.IntVar(&c.Shards, "shards", 1, "number of shards")
	fs.Parse(os.Args[3:])
	c.Mode = mode
	d, ok := drivers.Registry[block]
	if !ok {
		fmt.Fprintln(os.Stderr, "unknown block", block)
		os.Exit(2)
	}
	d(&c)
}
