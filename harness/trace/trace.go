// Package trace writes scenarios as NDJSON, one scenario per line, chunked
// into files of bounded size so that several TLC processes can validate them
// in parallel.
package trace

import (
	"bufio"
	"encoding/json"
	"fmt"
	"os"
	"path/filepath"
)

// Scenario is one independent recorded execution: the abstract start state
// and one event per action.
type Scenario struct {
	ID    string      `json:"id"`
	Reset interface{} `json:"reset"`
	Ev    [][]any     `json:"ev"`
}

// Writer spreads scenarios over files <dir>/<prefix>-NNN.ndjson with at most
// MaxEvents events per file.
type Writer struct {
	Dir       string
	Prefix    string
	MaxEvents int
	n         int
	events    int
	f         *os.File
	w         *bufio.Writer
	Scenarios int
	Events    int
	Files     []string
	Quiet     bool // no SUMMARY line on Close
}

func NewWriter(dir, prefix string, maxEvents int) *Writer {
	if maxEvents <= 0 {
		maxEvents = 100000
	}
	return &Writer{Dir: dir, Prefix: prefix, MaxEvents: maxEvents}
}

func (w *Writer) open() {
	name := filepath.Join(w.Dir, fmt.Sprintf("%s-%03d.ndjson", w.Prefix, w.n))
	f, err := os.Create(name)
	if err != nil {
		panic(err)
	}
	w.f = f
	w.w = bufio.NewWriterSize(f, 1<<20)
	w.Files = append(w.Files, name)
	w.n++
	w.events = 0
}

// Put writes one scenario.
func (w *Writer) Put(s *Scenario) {
	if w.f == nil || (w.events > 0 && w.events+len(s.Ev) > w.MaxEvents) {
		w.closeFile()
		w.open()
	}
	b, err := json.Marshal(s)
	if err != nil {
		panic(err)
	}
	w.w.Write(b)
	w.w.WriteByte('\n')
	w.events += len(s.Ev)
	w.Events += len(s.Ev)
	w.Scenarios++
}

func (w *Writer) closeFile() {
	if w.f != nil {
		w.w.Flush()
		w.f.Close()
		w.f = nil
	}
}

// Close flushes everything and prints a one-line JSON summary on stdout.
func (w *Writer) Close() {
	w.closeFile()
	if w.Quiet {
		return
	}
	sum := map[string]any{"prefix": w.Prefix, "files": w.Files, "scenarios": w.Scenarios, "events": w.Events}
	b, _ := json.Marshal(sum)
	fmt.Println("SUMMARY " + string(b))
}

// ReadAll reads scenarios from an NDJSON file.
func ReadAll(path string) ([]*Scenario, error) {
	f, err := os.Open(path)
	if err != nil {
		return nil, err
	}
	defer f.Close()
	var out []*Scenario
	sc := bufio.NewScanner(f)
	sc.Buffer(make([]byte, 1<<20), 1<<30)
	for sc.Scan() {
		line := sc.Bytes()
		if len(line) == 0 {
			continue
		}
		var s Scenario
		if err := json.Unmarshal(line, &s); err != nil {
			return nil, err
		}
		out = append(out, &s)
	}
	return out, sc.Err()
}

// Int converts a JSON-decoded number (or an int) to int.
func Int(v any) int {
	switch x := v.(type) {
	case float64:
		return int(x)
	case int:
		return x
	case int64:
		return int(x)
	case uint8:
		return int(x)
	case uint16:
		return int(x)
	case bool:
		if x {
			return 1
		}
		return 0
	case json.Number:
		n, _ := x.Int64()
		return int(n)
	}
	panic(fmt.Sprintf("trace.Int: %T", v))
}

// Str converts a JSON-decoded string.
func Str(v any) string {
	s, _ := v.(string)
	return s
}

// Ints converts a JSON-decoded array to []int.
func Ints(v any) []int {
	switch x := v.(type) {
	case []any:
		out := make([]int, len(x))
		for i, e := range x {
			out[i] = Int(e)
		}
		return out
	case []int:
		return x
	}
	panic(fmt.Sprintf("trace.Ints: %T", v))
}

// B2I converts a bool to 0/1.
func B2I(b bool) int {
	if b {
		return 1
	}
	return 0
}
