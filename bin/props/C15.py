"""C15 - rendered frames equal the DMG composition of VRAM, OAM and registers."""
import os

import vlib

LEVEL = "model_checking"
SPECDIR = os.path.join(vlib.SPEC, "render")


def features(r):
    ev = r.get("event")
    sc = r["scenario"]
    f = {}
    if ev and len(ev) == 6:
        x, y = ev[0], ev[1]
        oam = sc["reset"]["oam"]
        regs = sc["reset"]["regs"]
        cover = [i for i in range(40) if oam[4 * i + 1] - 8 <= x < oam[4 * i + 1] and oam[4 * i] - 16 <= y < oam[4 * i] - 8]
        f["objects_on_pixel"] = len(cover)
        f["object_clipped_top"] = any(oam[4 * i] < 16 for i in cover)
        f["objects_enabled"] = bool(regs[0] & 2)
        f["window_on"] = bool(regs[0] & 0x20)
        f["obj_attr_bit3"] = any(oam[4 * i + 3] & 8 for i in cover)
        f["obj_attr_bit4"] = any(oam[4 * i + 3] & 16 for i in cover)
    return f


def describe(r):
    ev = r.get("event")
    sc = r["scenario"]
    if ev and len(ev) == 6:
        return "scene %s (seed %s, registers %s): pixel (%d,%d) is RGBA %s - not the DMG composition (Render!Pixel)" % (r["id"], sc["reset"].get("seed"), sc["reset"]["regs"], ev[0], ev[1], ev[2:])
    return "scene %s: %s" % (r["id"], ev)


def check(run):
    run.build()
    run.mc(SPECDIR, "Render_MC.tla", "Render_MC.cfg", env={"LATTICE": "small" if run.tier == "quick" else "big"}, workers=12, timeout=3000,
           name="micro-scenes: background/window/object priority, palettes, clipping at all edges")
    files, _ = run.gen("render")
    accepted, ids = run.validate(files, SPECDIR, "Render_Trace.tla", "Render_Trace.cfg", heap="5g")
    run.cov["traces_validated_against_impl"] += len(accepted)
    run.count_distinct(files, key=lambda e, s: [s["id"], e[0], e[1]])
    run.cov["samples"].append({"note": "a scene = 8192 VRAM bytes + 160 OAM bytes + 8 registers as read back; events are [x, y, r, g, b, a]", "first_events": []})
    import json
    with open(files[0]) as fh:
        s = json.loads(fh.readline())
        run.cov["samples"][-1]["first_events"] = s["ev"][:6]
        run.cov["samples"][-1]["regs"] = s["reset"]["regs"]
        run.cov["samples"][-1]["oam_first_objects"] = s["reset"]["oam"][:16]
    run.cov["rule"] = ("random scenes inside the statement's precondition (random / solid / sparse tiles, both maps, both addressing modes, scroll, window on/off at WX 7-166, up to 10 objects ordered by X incl. partly off every edge, "
                       "random attributes and palettes), written with the LCD off, read back, one frame rendered by the real PPU; quick: all pixels of up to 14 rows cutting object/window edges + 600 random pixels per scene (20 scenes); "
                       "thorough: 300 scenes, every third with all 23,040 pixels. Shades are calibrated on the same build (blank tile, BGP = 0..3) and must be four distinct opaque greys of decreasing brightness. "
                       "distinct_nontrivial = distinct (scene, x, y) pixels validated")
    run.triage("render", files, accepted, ids, SPECDIR, "Render_Trace.tla", "Render_Trace.cfg", "Render_TraceDiag.cfg", features, describe=describe)


def replay(run, path):
    return vlib.generic_replay(run, path, "render", SPECDIR, "Render_Trace.tla", "Render_Trace.cfg")
