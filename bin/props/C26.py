"""C26 - frame loop steps every component once per machine cycle and stops on request."""
import os

import vlib

LEVEL = "model_checking"
SPECDIR = os.path.join(vlib.SPEC, "system")


def features(r):
    ev = r.get("event")
    return {"event_kind": ev[0] if ev else None, "family": r["scenario"]["reset"][0]}


def describe(r):
    ev = r.get("event")
    return "scenario %s (%s): event %d %s is not a step of System_Trace from [cycle in frame, phase, frames, stop request] = [%s]" % (
        r["id"], r["scenario"]["reset"][:2], r["index"], ev, r.get("state"))


def check(run):
    run.build()
    run.mc(SPECDIR, "System_MC.tla", "System_MC.cfg", workers=2, name="Run state machine: at most one frame after a stop request, release, liveness under weak fairness")
    files = []
    for fam in ("cycles", "twin", "run"):
        fs, _ = run.gen("system", fam=fam)
        files += fs
    accepted, ids = run.validate(files, SPECDIR, "System_Trace.tla", "System_Trace.cfg", heap="6g")
    run.cov["traces_validated_against_impl"] += len(accepted)
    run.count_distinct(files, key=lambda e, s: [e[0]] + ([e[8:]] if e[0] == "c" else e[1:3]))
    run.note_samples(files, k=1)
    run.cov["rule"] = ("through package gameboy itself (cgo-free display/speakers stand-ins): cycles = the observer at the end of every machine cycle of the real runFrame logs the timer counter, audio clock, RTC sub-second count, DMA index, "
                       "TIMA and IF plus what the CPU wrote in that cycle, for generated busy ROMs and blargg ROMs from random frame offsets - TLC checks +4 / 4 clocks / +1 / one DMA step per cycle, 17,556 cycles per frame and the timer request; "
                       "twin = the same ROM run by runFrame and by the reference loop (CPU, video, memory, audio, timer->IF) must give equal per-frame digests of registers, memory, frame, cartridge RAM and serial output; "
                       "run = gameboy.Run stopped by cancelling the context or by the display asking to close at a random frame. distinct_nontrivial = distinct event classes")
    run.triage("system", files, accepted, ids, SPECDIR, "System_Trace.tla", "System_Trace.cfg", "System_TraceDiag.cfg", features, describe=describe)


def replay(run, path):
    return vlib.generic_replay(run, path, "system", SPECDIR, "System_Trace.tla", "System_Trace.cfg")
