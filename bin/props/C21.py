"""C21 - channel waveforms run at the documented frequencies."""
import os

import vlib

LEVEL = "model_checking"
SPECDIR = os.path.join(vlib.SPEC, "apu")


def features(r):
    sc = r["scenario"]
    rs = sc["reset"]
    f = {"kind": rs[0], "channel": rs[6] if len(rs) > 6 else None}
    if rs[0] == "noise":
        f.update(r=rs[1], s=rs[2], narrow=rs[3], shift_nonzero=rs[2] > 0)
    else:
        f["freq"] = rs[1]
    return f


def describe(r):
    sc = r["scenario"]
    return "generator scenario %s (reset %s): change event %d %s does not fit the documented period (inferred first-step clock, LFSR: %s)" % (
        r["id"], sc["reset"], r["index"], r.get("event"), r.get("state"))


def check(run):
    run.build()
    for narrow in (0, 1):
        out = run.mc(SPECDIR, "LFSR_MC.tla", "LFSR_MC.cfg", env={"NARROW": narrow}, workers=1, name="complete LFSR cycle, %s mode" % ("7-bit" if narrow else "15-bit"), keep_output=True)
        g, d = vlib.parse_states(out)
        if d != (127 if narrow else 32767):
            raise vlib.Infra("LFSR model has %d states" % d)
    files, _ = run.gen("apu", fam="gen")
    accepted, ids = run.validate(files, SPECDIR, "APUGen_Trace.tla", "APUGen_Trace.cfg", heap="6g")
    run.cov["traces_validated_against_impl"] += len(accepted)
    run.count_distinct(files, key=lambda e, s: [s["reset"][0], s["reset"][1], s["reset"][2], s["reset"][3], e[1] if len(e) > 1 else None])
    run.note_samples(files, k=2)
    run.cov["rule"] = ("the cycle numbers at which the duty index / wave position / LFSR (verif hook) change after a trigger: channels 1, 2 and 3 for 48 frequencies incl. the boundaries (thorough: all 2048), "
                       "channel 4 for every NR43 value with s <= 13 (sampled above s = 5 in quick) over 2.5-5 LFSR clocks, plus the LFSR value sequence over more than two full periods in both widths. "
                       "TLC infers the phase of the first step and demands exact periodicity and the m-sequence. distinct_nontrivial = distinct (channel kind, parameters, value) observations")
    run.triage("apu", files, accepted, ids, SPECDIR, "APUGen_Trace.tla", "APUGen_Trace.cfg", "APUGen_TraceDiag.cfg", features, describe=describe)


def replay(run, path):
    return vlib.generic_replay(run, path, "apu", SPECDIR, "APUGen_Trace.tla", "APUGen_Trace.cfg")
