"""C18 - sound registers read back through their masks and obey APU power."""
import os

import apu_common
import vlib

LEVEL = "model_checking"
SPECDIR = os.path.join(vlib.SPEC, "apu")


def features(r):
    ev = r.get("event")
    f = {"event_kind": ev[0] if ev else None}
    if ev and len(ev) > 2:
        f["addr_hex"] = "%04X" % ev[1]
    return f


def describe(r):
    ev = r.get("event")
    if ev and ev[0] in ("r", "rw"):
        prev = [e for e in r["scenario"]["ev"][:r["index"] - 1] if e[0] in ("w", "ww") and e[1] == ev[1]]
        return "read of %04X returned %02X (last write there: %s; spec power=%s) - not allowed by APUReg (scenario %s)" % (
            ev[1], ev[2], ("%02X" % prev[-1][2]) if prev else "none", r.get("state"), r["id"])
    return "scenario %s: event %s rejected" % (r["id"], ev)


def check(run):
    run.build()
    run.mc(SPECDIR, "APUReg_MC.tla", "APUReg_MC.cfg", name="registers x values x power toggles, depth 5")
    files = []
    for fam in ("regs", "single"):
        fs, _ = run.gen("apu", fam=fam)
        files += fs
    accepted, ids = run.validate(files, SPECDIR, "APUReg_Trace.tla", "APUReg_Trace.cfg")
    run.cov["traces_validated_against_impl"] += len(accepted)
    run.count_distinct(files, key=lambda e, s: [e[0], e[1], e[2] if len(e) > 2 else None])
    run.note_samples(files, k=1)
    run.cov["rule"] = ("through the Mapper: regs = random sequences of writes of arbitrary values to NR10-NR51, wave RAM and NR52 power toggles interleaved with machine cycles, all of FF10-FF2F and some wave RAM read after writes; "
                       "single = every register x every value (every third in quick) written with sound on and with sound off, read back at once. distinct_nontrivial = distinct (kind, address, value) events")
    run.assumptions += ["in the regs / single families the NR52 status nibble is free; it is judged in the len family (shared with C19); wave RAM is only judged while NR52 shows channel 3 off; an NR34 trigger may alter wave RAM"]
    run.triage("apu", files, accepted, ids, SPECDIR, "APUReg_Trace.tla", "APUReg_Trace.cfg", "APUReg_TraceDiag.cfg", features, describe=describe)
    # "NR52 reads 70 plus the power and channel-status bits", "while off ... the length registers" are still written:
    # the status nibble is decided by the channel / length model, on schedules that include writes while powered off
    apu_common.stat_traces(run)


def replay(run, path):
    if "apu-len" in open(path).read(2000):
        print(open(path).read()[:3000])
        return 0
    return vlib.generic_replay(run, path, "apu", SPECDIR, "APUReg_Trace.tla", "APUReg_Trace.cfg")
