"""C14 - VBlank and STAT interrupts are requested exactly at their conditions."""
import ppu_common

LEVEL = "model_checking"


def check(run):
    ppu_common.run_ppu(run, "C14",
                       "as C13 with IF read and cleared after every machine cycle: no source and each single STAT source (HBlank, VBlank, OAM, LY=LYC) x LYC in {0,1,77,143,144,153,154,255} (thorough: 0..153, 154, 200, 255) "
                       "over whole frames, plus the LCD on/off schedules. distinct_nontrivial = distinct (configuration, LY, mode, IF) observations")
    run.assumptions += ["several STAT sources enabled at once, LYC changing while the LCD is on, the OAM source on line 144 and on the line that starts at switch-on are not judged"]


replay = ppu_common.replay
