"""Shared by C18 and C19: NR52 status traces validated against APUStat (frame-sequencer phase inferred by TLC)."""
import json
import os
import re

import vlib

SPECDIR = os.path.join(vlib.SPEC, "apu")


def features(r):
    ev = r.get("event")
    f = {"event_kind": ev[0] if ev else None}
    if ev and ev[0] == 1:
        f["addr_hex"] = "%04X" % ev[1]
    return f


def describe(r):
    ev = r.get("event")
    return ("scenario %s: event %d %s (1 = write addr value NR52-after / 0 = n cycles NR52-after) is not a step of APUStat_Trace from [phase, cycle, step, power, status, len1..4] = [%s]"
            % (r["id"], r["index"], ev, r.get("state", "")))


def stat_traces(run):
    # stage 1: infer the frame sequencer phase from a calibration scenario (all 2048 phases tried by TLC)
    cal, _ = run.gen("apu", fam="lencal")
    rc, out = run.tlc(SPECDIR, "APUStat_Trace.tla", "APUStat_Trace.cfg", env={"TRACE": cal[0], "PHASE": "ALL"}, workers=8, heap="6g")
    phases = sorted({int(m.group(1)) for m in re.finditer(r'<<"ACCEPT", "apu-lencal-0", (\d+)>>', out)})
    if "Model checking completed" not in out:
        raise vlib.Infra("calibration run failed:\n" + vlib.tail(out, 30))
    if len(phases) != 1:
        # no phase explains the calibration: the status did not drop where any phase would put it
        sc = open(cal[0]).readline()
        run.violation("frame sequencer calibration (length 1, enable, trigger): NR52 trace %s is explained by %d phases" % (json.loads(sc)["ev"][-4:], len(phases)),
                      {"kind": "calibration", "scenario": json.loads(sc), "phases": phases})
        return
    phase = phases[0]
    run.cov["inferred_sequencer_phase"] = phase
    g, d = vlib.parse_states(out)
    run.cov["states"] += d
    run.cov["transitions"] += g
    files, _ = run.gen("apu", fam="len")
    env = {"PHASE": phase}
    accepted, ids = run.validate(files, SPECDIR, "APUStat_Trace.tla", "APUStat_Trace.cfg", env=env)
    run.cov["traces_validated_against_impl"] += len(accepted)
    run.count_distinct(files, key=lambda e, s: e)
    run.note_samples(files, k=1)
    run.cov["rule"] = ((run.cov.get("rule") or "") + " " + "NR52 is read after every machine cycle and run-length compressed; len = random schedules (length writes, DAC on/off, triggers with/without length enable, NR10/NR13, power toggles, runs of 1..13000 cycles) "
                       "started at every frame-sequencer phase (random offset 0..4095); lenexact = a channel triggered with random length data and length enabled, run until it expires. The sequencer phase relative to machine "
                       "start is inferred by TLC from a calibration scenario. distinct_nontrivial = distinct event payloads").strip()
    run.assumptions += ["the scenario writes all four length registers and cycles the power first, so every length counter and the sequencer step are defined by the scenario itself"]
    run.triage("apu", files, accepted, ids, SPECDIR, "APUStat_Trace.tla", "APUStat_Trace.cfg", "APUStat_TraceDiag.cfg", features, describe=describe, env=env)

