"""C23 - serial output delivers each written byte once, in order."""
import os

import vlib

LEVEL = "model_checking"
SPECDIR = os.path.join(vlib.SPEC, "serial")


def features(r):
    ev = r.get("event")
    return {"event_kind": ev[0] if ev else None}


def check(run):
    run.build()
    run.mc(SPECDIR, "Serial_MC.tla", "Serial_MC.cfg", workers=2, name="all sequences of SB writes / other writes to depth 6, with and without a writer")
    files, _ = run.gen("serial")
    accepted, ids = run.validate(files, SPECDIR, "Serial_Trace.tla", "Serial_Trace.cfg")
    run.cov["traces_validated_against_impl"] += len(accepted)
    run.count_distinct(files, key=lambda e, s: [e[0], (e[1] if e[0] != "out" else len(e[1])) if len(e) > 1 else None, e[2] if len(e) > 2 else None])
    run.note_samples(files, k=2)
    run.cov["rule"] = ("bus = random writes/reads on the I/O page through the Mapper with the hardware ticking; prog = generated programs (LDH (01),A / LDH (02),A / LD (HL),n / LD (FF00+C),A with random bytes between other I/O) "
                       "run on the full machine, every CPU write logged by the bus hook; the writer's buffer is compared with the SB writes at random points and at the end; with and without a writer configured; rom = blargg ROMs run for 1.2 M (thorough 6 M) cycles, their serial transcript compared with the logged SB writes. "
                       "distinct_nontrivial = distinct (kind, address, value) events")
    run.triage("serial", files, accepted, ids, SPECDIR, "Serial_Trace.tla", "Serial_Trace.cfg", "Serial_TraceDiag.cfg", features)


def replay(run, path):
    return vlib.generic_replay(run, path, "serial", SPECDIR, "Serial_Trace.tla", "Serial_Trace.cfg")
