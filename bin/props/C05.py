"""C05 - HALT idles until an enabled request and reproduces the halt bug."""
import int_common

LEVEL = "model_checking"


def check(run):
    int_common.run_int(run, ["halt", "haltop", "hprog", "halt2", "hdbg"],
                       "halt = HALT x IME x all IE x IF (2048) with a request after 0-8 idle cycles; haltop = HALT followed by every defined opcode x IME x {nothing pending, pending before HALT (halt bug), "
                       "request arriving after 0-8 idle cycles}; hprog = every program up to length 3 (4 in thorough, sampled) containing HALT over the C04 alphabet, a request raised before every cycle offset. "
                       "Idle cycles are events of their own. distinct_nontrivial = distinct (opcode, cycles, PC delta, IE, IF, raises, initial state) tuples")


replay = int_common.replay
