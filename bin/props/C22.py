"""C22 - JOYP reflects held buttons for the selected groups."""
import json
import os
import re

import vlib

LEVEL = "model_checking"
SPECDIR = os.path.join(vlib.SPEC, "joypad")


def features(r):
    sc = r["scenario"]
    idx = r["index"]
    ev = sc["ev"][idx - 1] if idx and idx <= len(sc["ev"]) else None
    m = re.search(r"(\d+), \{(.*)\}", r.get("state", ""))
    sel = int(m.group(1)) if m else None
    held = sorted(re.findall(r'"(\w+)"', m.group(2))) if m else []
    btn = [k for k in held if k in ("A", "B", "Select", "Start")]
    return {"event_kind": ev[0] if ev else None, "sel": sel, "button_held": bool(btn)}


def check(run):
    run.build()
    # Leg A: the complete abstract state space, with the per-transition tests emitted for leg C
    out = run.mc(SPECDIR, "Joypad_MC.tla", "Joypad_MC.cfg", env={"EMIT": "1"}, workers=4, name="complete joypad state space", keep_output=True)
    tests = []
    for m in re.finditer(r'<<"T", (\d), <<([\d, ]+)>>, "(\w)", (\d+), (<<[\d, ]+>>|\d+)>>', out):
        exp = [int(x) for x in re.findall(r"\d+", m.group(5))]
        tests.append({"sel": int(m.group(1)), "held": [int(x) for x in m.group(2).split(",")], "act": m.group(3), "arg": int(m.group(4)), "exp": exp})
    if len(tests) < 1000:
        raise vlib.Infra("leg C: TLC emitted only %d tests" % len(tests))
    # Leg C: replay every spec transition on the real controller
    tin = os.path.join(run.tmp, "legc-in.ndjson")
    tout = os.path.join(run.tmp, "legc-out.ndjson")
    with open(tin, "w") as fh:
        for t in tests:
            fh.write(json.dumps(t) + "\n")
    p, _, infos = run.drive("joy", "legc", "-in", tin, "-out", tout)
    legc = infos[-1]
    run.cov["legs"].append({"leg": "C", "tests_replayed": legc["tests"], "mismatches": legc["mismatches"], "source_states": legc["source_states"]})
    vlib.log("leg C: %d spec transitions replayed on the real controller, %d mismatches" % (legc["tests"], legc["mismatches"]))
    mism = [json.loads(l) for l in open(tout)]
    # Leg B: breadth-first exploration of the real controller, every transition validated
    files, infos = run.gen("joy")
    impl = infos[-1]
    accepted, ids = run.validate(files, SPECDIR, "Joypad_Trace.tla", "Joypad_Trace.cfg")
    run.cov["traces_validated_against_impl"] += len(accepted)
    run.cov["impl_states"] = impl["impl_states"]
    run.cov["impl_transitions"] = impl["impl_transitions"]
    run.cov["exhaustive"] = run.tier == "thorough"
    run.cov["rule"] = ("leg B: breadth-first over the real controller (state identity = read-outs under the four select patterns), "
                       "from every discovered state every press/release of the 8 keys and JOYP writes (all 256 in thorough, 4 canonical + 12 seeded in quick); "
                       "one scenario per transition; distinct_nontrivial = distinct (source state, action) pairs of the real controller that were executed and validated; leg C: one replayed test per transition of the spec's state graph")
    run.count_distinct(files)
    run.cov["distinct_event_payloads"] = run.cov["distinct_nontrivial"]
    run.cov["distinct_nontrivial"] = impl["impl_transitions"]
    run.note_samples(files)
    run.assumptions += ["a freshly constructed controller has no key held", "the select bits before the first JOYP write are inferred by TLC from the first read"]
    if impl["impl_states"] != 576:
        # the spec has exactly 576 states (4 select patterns x 9 direction states x 16 button states)
        run.violation("the real controller has %d observable states, the specification 576" % impl["impl_states"],
                      {"kind": "state-count", "impl_states": impl["impl_states"], "spec_states": 576})
    run.triage("joy", files, accepted, ids, SPECDIR, "Joypad_Trace.tla", "Joypad_Trace.cfg", "Joypad_TraceDiag.cfg", features)
    rej = []
    for m in mism:
        rej.append({"id": "legc", "block": "joy", "scenario": {"ev": m["script"]}, "index": len(m["script"]),
                    "state": "%d, {%s}" % (m["test"]["sel"], ", ".join('"%s"' % k for k, h in zip(["Up", "Down", "Left", "Right", "A", "B", "Start", "Select"], m["test"]["held"]) if h)),
                    "legc": m, "what": "leg C: spec transition %s expects %s, real controller gave %s" % (m["test"], m["test"]["exp"], m["got"])})
    run.handle_rejections(rej[:40], features)


def replay(run, path):
    run.build()
    r = json.load(open(path))
    sc = r.get("scenario")
    if not sc or "id" not in sc:
        print(json.dumps(r, indent=1))
        return 0
    rin = os.path.join(run.tmp, "replay.ndjson")
    open(rin, "w").write(json.dumps(sc) + "\n")
    rdir = os.path.join(run.tmp, "rerun")
    os.makedirs(rdir)
    p, sums, _ = run.drive("joy", "rerun", "-in", rin, "-out", rdir)
    acc, ids = run.validate(sums[-1]["files"], SPECDIR, "Joypad_Trace.tla", "Joypad_Trace.cfg")
    if set(ids) <= acc:
        print("replay: scenario accepted on this tree")
        return 0
    print("VIOLATION property=%s replay=%s" % (run.prop, path))
    return 1
