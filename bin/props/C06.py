"""C06 - address space and I/O registers read back as on a DMG."""
import mem_common

LEVEL = "model_checking"


def check(run):
    mem_common.run_mem(run, ["single", "bulk", "seq", "dma", "hotreg", "cross"],
                       "through Mapper.Read/Write only, from three start states (power-on, LCD off, randomised machine then LCD off): single = every I/O-page address and both sides of every region boundary x values "
                       "(all 256 in thorough), read back at once incl. the mirror; bulk = strided (thorough: every address) sweep of VRAM, WRAM, echo, OAM+unusable, HRAM; seq = random write/read sequences over <=48 addresses; "
                       "dma = FF46 read-back for all 256 values. distinct_nontrivial = distinct (kind, address, value) events")
    run.assumptions += ["cartridge areas, JOYP, SB/SC, sound registers and wave RAM are judged by C08/C09/C22/C23/C18, not here", "STAT bits 0-2 are time dependent and not judged"]


replay = mem_common.replay
