"""Shared flow of C06 / C07."""
import os

import vlib

SPECDIR = os.path.join(vlib.SPEC, "memmap")


def features(r):
    ev = r.get("event")
    f = {"event_kind": ev[0] if ev else None}
    if ev and ev[0] in ("r", "w", "wf"):
        f["addr"] = ev[1]
        f["addr_hex"] = "%04X" % ev[1]
    if ev and ev[0] == "r":
        f["value"] = ev[2]
    if ev and ev[0] == "wf":
        f["changed"] = sorted({"%04X" % d[0] for d in ev[3]})[:8]
    return f


def describe(r):
    ev = r.get("event")
    if not ev:
        return "scenario %s rejected" % r["id"]
    if ev[0] == "r":
        prev = [e for e in r["scenario"]["ev"][:r["index"] - 1] if e[0] in ("w", "wf") and e[1] == ev[1]]
        return "read of %04X returned %02X (last write there: %s) - not allowed by MemMap (scenario %s, start state %s)" % (
            ev[1], ev[2], ("%02X" % prev[-1][2]) if prev else "none", r["id"], r["scenario"]["reset"])
    if ev[0] == "wf":
        return "write %02X to %04X changed %s - outside MemMap!Footprint (scenario %s)" % (ev[2], ev[1], [["%04X" % d[0], d[1], d[2]] for d in ev[3][:6]], r["id"])
    return "event %s of scenario %s rejected" % (ev, r["id"])


def run_mem(run, fams, rule):
    run.build()
    run.mc(SPECDIR, "MemMap_MC.tla", "MemMap_MC.cfg", workers=2, name="static sanity of the region / mask / footprint tables")
    files = []
    for fam in fams:
        fs, _ = run.gen("mem", fam=fam)
        files += fs
    accepted, ids = run.validate(files, SPECDIR, "MemMap_Trace.tla", "MemMap_Trace.cfg")
    run.cov["traces_validated_against_impl"] += len(accepted)
    run.count_distinct(files, key=lambda e, s: [e[0], e[1], e[2] if len(e) > 2 else None])
    run.note_samples(files, k=2)
    run.cov["rule"] = rule
    run.triage("mem", files, accepted, ids, SPECDIR, "MemMap_Trace.tla", "MemMap_Trace.cfg", "MemMap_TraceDiag.cfg", features, describe=describe)


def replay(run, path):
    return vlib.generic_replay(run, path, "mem", SPECDIR, "MemMap_Trace.tla", "MemMap_Trace.cfg")
