"""Shared flow of C04 and C05: IntCtl.tla (leg A) + validation of recorded units with harness-raised requests (leg B)."""
import json
import os
import re

import vlib

SPECDIR = os.path.join(vlib.SPEC, "intctl")


def features(r):
    ev = r.get("event")
    st = r.get("state", "")
    m = re.match(r'"(\w+)", (\w+), (\w+), (\w+), (\w+)', st)
    f = {}
    if m:
        f.update(expected_unit=m.group(1), ime=m.group(2) == "TRUE", eiDelay=m.group(3) == "TRUE", halted=m.group(4) == "TRUE", haltBug=m.group(5) == "TRUE")
    if ev:
        f["op"] = ev[1][0]
        f["n"] = ev[4]
        f["post_pc_is_vector"] = ev[3][9] in (0x40, 0x48, 0x50, 0x58, 0x60)
    sc = r["scenario"]
    idx = r["index"]
    if idx >= 2:
        f["prev_op"] = sc["ev"][idx - 2][1][0]
    return f


def describe(r):
    ev = r.get("event")
    if not ev:
        return "scenario %s rejected" % r["id"]
    if ev[4] == 99:
        return "unit %d of %s: the emulator panicked (%s) executing bytes %s at PC=%04X, IE=%02X IF=%02X" % (
            r["index"], r["id"], ev[10] if len(ev) > 10 else "?", ["%02X" % b for b in ev[1]], ev[0][9], ev[5], ev[6])
    return ("unit %d of %s: spec state [%s] at the boundary; the real CPU went from PC=%04X SP=%04X to PC=%04X SP=%04X in %d cycles, IE=%02X IF=%02X afterwards, "
            "bytes at PC %s, raises %s - not a step of Int_Trace" % (r["index"], r["id"], r.get("state", "")[:160], ev[0][9], ev[0][8], ev[3][9], ev[3][8], ev[4], ev[5], ev[6],
                                                                   ["%02X" % b for b in ev[1]], ev[7]))


def run_int(run, fams, rule):
    run.build()
    if run.tier == "quick":
        run.mc(SPECDIR, "IntCtl_MC.tla", "IntCtl_MC_safety.cfg", env={"DEPTH": 4},
               name="closed model: any program of control instructions, requests raised at any time; safety", heap="16g", timeout=3000)
    else:
        run.mc(SPECDIR, "IntCtl_MC.tla", "IntCtl_MC.cfg", env={"DEPTH": 6},
               name="closed model: any program of control instructions, requests raised at any time; safety + liveness under weak fairness", heap="24g", timeout=3000)
    files = []
    for fam in list(fams) + ["rom"]:
        fs, _ = run.gen("int", fam=fam)
        files += fs
    accepted, ids = run.validate(files, SPECDIR, "Int_Trace.tla", "Int_Trace.cfg", heap="5g")
    run.cov["traces_validated_against_impl"] += len(accepted)
    run.count_distinct(files, key=lambda e, s: [e[1][0], e[4], e[0][9] - e[3][9], e[5], e[6], e[7], s["reset"]])
    run.note_samples(files, k=2)
    run.cov["rule"] = rule
    run.assumptions += ["requests are raised by the harness through interrupts.RequestX between machine cycles; no other hardware is ticking",
                        "free: priority when a higher request arrives during the dispatch, the cycle of the two pushes, EI directly followed by HALT, "
                        "wake-up latency 0-2 cycles with IME clear, halt bug followed by CB/HALT"]
    run.triage("int", files, accepted, ids, SPECDIR, "Int_Trace.tla", "Int_Trace.cfg", "Int_TraceDiag.cfg", features, describe=describe)


def replay(run, path):
    return vlib.generic_replay(run, path, "int", SPECDIR, "Int_Trace.tla", "Int_Trace.cfg")
