"""C24 - emulation is deterministic."""
import os

import vlib

LEVEL = "exploration"
SPECDIR = os.path.join(vlib.SPEC, "system")


def features(r):
    ev = r.get("event")
    return {"event_kind": ev[0] if ev else None, "rom": os.path.basename(r["scenario"]["reset"][1])}


def describe(r):
    ev = r.get("event")
    return "ROM %s, seed %s: frame %s digests [same process run 1, run 2, separate process] = %s differ" % (
        os.path.basename(r["scenario"]["reset"][1]), r["scenario"]["reset"][2], ev[1] if ev and len(ev) > 1 else "?", ev[2:] if ev else None)


def check(run):
    run.build()
    files, _ = run.gen("system", fam="det")
    accepted, ids = run.validate(files, SPECDIR, "System_Trace.tla", "System_Trace.cfg")
    run.cov["traces_validated_against_impl"] += len(accepted)
    import json
    n = 0
    distinct = set()
    for f in files:
        for line in open(f):
            s = json.loads(line)
            for e in s["ev"]:
                n += 1
                if e[0] == "d3":
                    distinct.add((s["reset"][1], e[2]))
    run.cov["evaluations"] = n
    run.cov["distinct_nontrivial"] = len(distinct)
    run.note_samples(files, k=2)
    run.cov["rule"] = ("self-composition: each ROM (generated busy ROMs and the repository's test ROMs; all available ROMs in thorough) is run through package gameboy with the stand-in display and speakers and a seeded button schedule, "
                       "twice in this process and once in a child process; per frame a digest of CPU registers, 8000-FFFF, the frame buffer, cartridge RAM, serial output and the timer counter, and at the end a digest including the hash "
                       "of all audio samples; the TLA+ trace specification only demands equality of the three runs. distinct_nontrivial = distinct (ROM, frame digest) values, i.e. frames whose state actually differed from other frames")
    run.assumptions += ["little modelling content: this is a hyperproperty decided by trace equality (DESIGN.md section 7)"]
    run.triage("system", files, accepted, ids, SPECDIR, "System_Trace.tla", "System_Trace.cfg", "System_TraceDiag.cfg", features, describe=describe, require_repro=False)


def replay(run, path):
    return vlib.generic_replay(run, path, "system", SPECDIR, "System_Trace.tla", "System_Trace.cfg")
