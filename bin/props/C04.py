"""C04 - interrupts are dispatched by priority exactly when enabled and requested; EI/DI/RETI."""
import int_common

LEVEL = "model_checking"


def check(run):
    int_common.run_int(run, ["boundary", "prog", "prio", "halt"],
                       "one event per unit between instruction boundaries; the spec decides from its control state whether the unit had to be a dispatch or an instruction. "
                       "boundary = all IME x IE x IF (2048, exhaustive); prog = every program up to length 3 (4 in thorough, sampled) over {EI, DI, RETI, NOP, INC B, LD A,n, LDH (0F),A, LDH (FF),A} "
                       "x 5 initial (IME,IE,IF) x a request raised before every machine-cycle offset; prio = two requests of different priority at different offsets around a dispatch, with and without HALT; halt = HALT x IME x all IE x IF with a request after 0-8 idle cycles (waking with IME clear must not dispatch). "
                       "distinct_nontrivial = distinct (opcode, cycles, PC delta, IE, IF, raises, initial state) tuples")


replay = int_common.replay
