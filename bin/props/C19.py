"""C19 - channel status bits and length counters behave as on a DMG."""
import os

import apu_common
import vlib

LEVEL = "model_checking"
SPECDIR = os.path.join(vlib.SPEC, "apu")


def check(run):
    run.build()
    run.mc(SPECDIR, "APUStat_MC.tla", "APUStat_MC.cfg", env={"DEPTH": 7 if run.tier == "quick" else 10}, timeout=3000, heap="24g",
           name="scaled machine: all schedules of length writes, DAC on/off, triggers, power toggles and sequencer steps")
    apu_common.stat_traces(run)


def replay(run, path):
    print(open(path).read()[:3000])
    return 0
