"""C20 - the audio sample stream is paced, routed and bounded."""
import os

import vlib

LEVEL = "model_checking"
SPECDIR = os.path.join(vlib.SPEC, "apu")


def features(r):
    ev = r.get("event")
    return {"event_kind": ev[0] if ev else None, "family": r["scenario"]["reset"][2]}


def describe(r):
    return "sample-stream scenario %s: event %d %s is not a step of APUSamp_Trace from [power, last sample clock, slips, since] = [%s]" % (r["id"], r["index"], r.get("event"), r.get("state"))


def check(run):
    run.build()
    run.mc(SPECDIR, "APUSamp_MC.tla", "APUSamp_MC.cfg", workers=4, name="scaled sampler divider; mixing operator over all routings")
    files, _ = run.gen("apu", fam="stream")
    accepted, ids = run.validate(files, SPECDIR, "APUSamp_Trace.tla", "APUSamp_Trace.cfg", heap="6g")
    run.cov["traces_validated_against_impl"] += len(accepted)
    run.count_distinct(files, key=lambda e, s: [e[0]] + (e[3:8] if e[0] == "s" else e[1:]))
    run.note_samples(files, k=1)
    run.cov["rule"] = ("audio.New with buffered sample channels drained after every machine cycle: samples = random register schedules (power toggles, triggers, NR50/NR51 routing, volumes, wave RAM) over 2^18 cycles (thorough 3*2^20), "
                       "every emitted pair logged with the machine cycle, NR52 before/after, NR51 and both samples scaled by 2^24; one run with only one channel attached must emit nothing; pair = two runs whose schedules "
                       "differ only in the registers of a channel never routed to the judged side. distinct_nontrivial = distinct (status, routing, sample value) observations")
    run.assumptions += ["floats are scaled to integers by the harness (round(s*2^24), NaN/Inf flagged): TLA+ has no floats", "one re-phasing of the divider (gap 96..189 clocks) is tolerated per scenario (the statement's own 44,149/s)"]
    run.triage("apu", files, accepted, ids, SPECDIR, "APUSamp_Trace.tla", "APUSamp_Trace.cfg", "APUSamp_TraceDiag.cfg", features, describe=describe)


def replay(run, path):
    return vlib.generic_replay(run, path, "apu", SPECDIR, "APUSamp_Trace.tla", "APUSamp_Trace.cfg")
