"""C02 - every instruction takes its documented number of machine cycles."""
import cpu_common

LEVEL = "model_checking"


def check(run):
    cpu_common.run_cpu(run, ["flags", "ops", "edge", "seq", "mem", "keys", "dma"],
                       "the number of ExecuteMachineCycle calls between instruction boundaries is compared with SM83!Exec's cycle count and with the independent "
                       "documented table SM83!CyclesDoc: flags = every defined opcode x all 16 flag nibbles (both outcomes of every condition, exhaustive); "
                       "ops = every opcode x random full states; mem = every opcode with pointers in every memory region. "
                       "edge = boundary operand bytes / pointer low bytes for every opcode; seq = generated programs executed back to back without resetting the CPU between instructions; "
                       "distinct_nontrivial = distinct (opcode, flags before, cycles) tuples", "C02")


    cpu_common.rom_traces(run, "C02")


replay = cpu_common.replay
