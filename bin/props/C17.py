"""C17 - OAM is only altered by CPU writes, DMA, or the mode-2 OAM bug."""
import os

import vlib

LEVEL = "model_checking"
SPECDIR = os.path.join(vlib.SPEC, "oam")


def features(r):
    ev = r.get("event")
    f = {}
    if ev and len(ev) == 6:
        f.update(lcd=ev[0], mode_before=ev[1], mode_after=ev[2], cpu_writes=len(ev[3]), changed=len(ev[4]))
    elif ev:
        f["panic"] = True
    return f


def describe(r):
    ev = r.get("event")
    if ev and len(ev) == 6:
        return ("scenario %s cycle %d: LCD %s, mode %d -> %d, CPU writes %s, but OAM changed at %s - not explained by a write, a DMA or mode 2 with the LCD on"
                % (r["id"], r["index"], "on" if ev[0] else "off", ev[1], ev[2], ev[3], ev[4][:6]))
    return "scenario %s: %s" % (r["id"], ev)


def check(run):
    run.build()
    run.mc(SPECDIR, "OamBug_MC.tla", "OamBug_MC.cfg", workers=2, name="arming condition under the line schedule and LCD switches at any cycle")
    files, _ = run.gen("oambug")
    accepted, ids = run.validate(files, SPECDIR, "OamBug_Trace.tla", "OamBug_Trace.cfg", heap="6g")
    run.cov["traces_validated_against_impl"] += len(accepted)
    run.count_distinct(files, key=lambda e, s: [e[0], e[1], e[2], len(e[3]), len(e[4])] if len(e) == 6 else e)
    run.note_samples(files, k=1)
    run.cov["rule"] = ("generated programs moving BC/DE/HL/SP through FE00-FEFF (16-bit INC/DEC, PUSH/POP, (HL+)/(HL-), LD (nn),SP, plain loads/stores) on the real CPU+PPU+OAM; every machine cycle is logged with the LCD state, "
                       "the STAT mode before/after, the CPU's OAM writes (bus hook) and the diff of a side-effect-free OAM snapshot: off = LCD switched off at every cycle (every 3rd in quick) of lines in every mode, the program "
                       "then runs with the LCD off; on = LCD on throughout, cycles not touching mode 2 are judged. distinct_nontrivial = distinct (lcd, mode before, mode after, #writes, #changed bytes) cycle classes")
    run.triage("oambug", files, accepted, ids, SPECDIR, "OamBug_Trace.tla", "OamBug_Trace.cfg", "OamBug_TraceDiag.cfg", features, describe=describe)


def replay(run, path):
    return vlib.generic_replay(run, path, "oambug", SPECDIR, "OamBug_Trace.tla", "OamBug_Trace.cfg")
