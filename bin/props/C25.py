"""C25 - emulator instances in one process are independent."""
import json
import os
import subprocess

import vlib

LEVEL = "exploration"
SPECDIR = os.path.join(vlib.SPEC, "system")


def features(r):
    ev = r.get("event")
    rs = r["scenario"]["reset"]
    return {"event_kind": ev[0] if ev else None, "schedule": rs[3], "instances": len(rs[1])}


def describe(r):
    ev = r.get("event")
    rs = r["scenario"]["reset"]
    return "instances %s created in order %s, schedule '%s': event %s (instance, frame, digest) differs from the instance running alone" % (
        [os.path.basename(x) for x in rs[1]], rs[2], rs[3], ev)


def check(run):
    run.build()
    race = run.build(race=True)
    files = []
    for sched in ("frame", "frame-audio", "cycle"):
        fs, _ = run.gen("system", fam="multi-" + sched)
        files += fs
    # concurrent schedule under the race detector
    d = os.path.join(run.tmp, "tr-conc")
    os.makedirs(d)
    p, sums, _ = run.drive("system", "gen", "-tier", run.tier, "-seed", run.seed, "-out", d, "-fam", "multi-conc", drv=race, check=False,
                           env={"GORACE": "halt_on_error=1 exitcode=66"})
    if p.returncode != 0:
        raise vlib.Infra("concurrent driver failed (%d): %s" % (p.returncode, (p.stdout + p.stderr)[-3000:]))
    for s in sums:
        files += s["files"]
    accepted, ids = run.validate(files, SPECDIR, "System_Trace.tla", "System_Trace.cfg")
    run.cov["traces_validated_against_impl"] += len(accepted)
    n = 0
    distinct = set()
    for f in files:
        for line in open(f):
            s = json.loads(line)
            for e in s["ev"]:
                n += 1
                if e[0] == "multi":
                    distinct.add((tuple(s["reset"][2]), s["reset"][3], e[1], e[2], e[3]))
    run.cov["evaluations"] = n
    run.cov["distinct_nontrivial"] = len(distinct)
    run.note_samples(files, k=1)
    run.cov["rule"] = ("pairs and triples of instances over different ROMs (generated busy ROMs and blargg ROMs), created in every order (two orders per group in quick), stepped frame-interleaved (package gameboy), "
                       "machine-cycle-interleaved (reference loop) and concurrently in goroutines under the race detector; every instance's per-frame digest must equal the digest of the same ROM running as the only instance. "
                       "distinct_nontrivial = distinct (creation order, schedule, instance, frame, digest) observations")
    run.assumptions += ["little modelling content: a hyperproperty decided by trace equality against solo runs (DESIGN.md section 7)"]
    # scenarios are re-executed with the race-detector build (a race report is a recorded event of the concurrent family)
    run.triage("system", files, accepted, ids, SPECDIR, "System_Trace.tla", "System_Trace.cfg", "System_TraceDiag.cfg", features, describe=describe, rerun_drv=race)


def replay(run, path):
    return vlib.generic_replay(run, path, "system", SPECDIR, "System_Trace.tla", "System_Trace.cfg")
