"""X01 (beyond the listed properties) - volume envelopes of channels 1, 2 and 4."""
import os

import vlib

LEVEL = "trace_validation"
SPECDIR = os.path.join(vlib.SPEC, "apu")


def features(r):
    ev = r.get("event")
    return {"event_kind": ev[0] if ev else None, "channel": r["scenario"]["reset"][1] + 1}


def describe(r):
    return ("envelope scenario %s (channel %d): event %d %s is not a step of APUEnv_Trace from [vol, period, up, trigger cycle, steps, last step, phase] = [%s]"
            % (r["id"], r["scenario"]["reset"][1] + 1, r["index"], r.get("event"), r.get("state", "")))


def check(run):
    run.build()
    files, _ = run.gen("apu", fam="env")
    accepted, ids = run.validate(files, SPECDIR, "APUEnv_Trace.tla", "APUEnv_Trace.cfg")
    run.cov["traces_validated_against_impl"] += len(accepted)
    run.count_distinct(files, key=lambda e, s: [s["reset"][1], e[0], e[2] if len(e) > 2 else None])
    run.note_samples(files, k=1)
    run.cov["rule"] = ("channels 1, 2, 4 after a power cycle: NRx2 written with random / boundary values and the channel triggered at random times (while an envelope is under way or after it "
                       "saturated), the volume read through the hook after every machine cycle and logged when it changes; the phase of the 64 Hz clock is inferred by TLC")
    run.assumptions += ["the first step after a trigger may come at the p-th (hardware) or (p+1)-th (this implementation) envelope clock: a named deviation of APUEnv.tla",
                        "NRx2 writes without a trigger (zombie mode) are not exercised"]
    run.triage("apu", files, accepted, ids, SPECDIR, "APUEnv_Trace.tla", "APUEnv_Trace.cfg", "APUEnv_TraceDiag.cfg", features, describe=describe)


def replay(run, path):
    return vlib.generic_replay(run, path, "apu", SPECDIR, "APUEnv_Trace.tla", "APUEnv_Trace.cfg")
