"""C12 - the timer counts, overflows and reloads as the DMG timer."""
import os
import re

import vlib

LEVEL = "model_checking"
SPECDIR = os.path.join(vlib.SPEC, "timer")


def features(r):
    sc = r["scenario"]
    idx = r["index"]
    evs = sc["ev"]
    ev = evs[idx - 1] if 0 < idx <= len(evs) else None
    prev = evs[idx - 2] if idx >= 2 else None
    st = r.get("state", "")
    m = re.match(r'"(\w+)", (\d+), (\d+), (\d+), (\d+)', st)
    f = {"event_kind": ev[0] if ev else None, "prev_kind": prev[0] if prev else None}
    if m:
        f.update(phase=m.group(1), counter=int(m.group(2)), tima=int(m.group(3)))
    # was there a DIV write since the last overflow?  (how the F2 family manifests)
    f["div_write_before"] = any(e[0] == "wd" for e in evs[:idx])
    return f


def check(run):
    run.build()
    deep_d, wide_d = (6, 4) if run.tier == "quick" else (8, 6)
    run.mc(SPECDIR, "Timer_MC.tla", "Timer_MC.cfg", env={"MODE": "wide", "DEPTH": wide_d}, name="all op sequences, every phase around every edge", heap="16g", timeout=3000)
    run.mc(SPECDIR, "Timer_MC.tla", "Timer_MC.cfg", env={"MODE": "deep", "DEPTH": deep_d}, name="all op sequences from just before an overflow", heap="24g", timeout=3000)
    files, _ = run.gen("timer")
    accepted, ids = run.validate(files, SPECDIR, "Timer_Trace.tla", "Timer_Trace.cfg")
    run.cov["traces_validated_against_impl"] += len(accepted)
    run.count_distinct(files, key=lambda e, s: [s["reset"][:4] if e[0] != "t" else None, e], nontrivial=lambda e: e[0] != "t" or e[3] == 1 or True)
    run.note_samples(files)
    run.cov["rule"] = ("scenarios = operation sequences over {tick, write DIV, write TIMA v, write TMA v, write TAC t} on the real timer.Timer, at most one write per cycle: "
                       "'wide' = sampled leaves of the full depth-%d tree from every counter phase within 3 ticks of an edge of the selected bit / the 16-bit wrap x TIMA in {FE,FF,00}; "
                       "'deep' = sampled leaves of the depth-%d tree from 1-2 ticks before an overflow; 'rand' = long random schedules. "
                       "distinct_nontrivial = distinct event payloads (kind, value, observed DIV/TIMA/irq)" % ((4, 6) if run.tier == "quick" else (5, 7)))
    run.assumptions += ["start states are set up through the timer's public API with TAC disabled; the start state is what is read back",
                        "glitches inside one machine cycle and an edge on the reload tick are left free (DESIGN.md C12 'free')"]
    run.triage("timer", files, accepted, ids, SPECDIR, "Timer_Trace.tla", "Timer_Trace.cfg", "Timer_TraceDiag.cfg", features)


def replay(run, path):
    return vlib.generic_replay(run, path, "timer", SPECDIR, "Timer_Trace.tla", "Timer_Trace.cfg")
