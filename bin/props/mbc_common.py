"""Shared flow of C08 / C09: MBC.tla (leg A) + validation of recorded cartridge bus operations (leg B)."""
import os
import re

import vlib

SPECDIR = os.path.join(vlib.SPEC, "mbc")

MC_CONFIGS = [("none", 2, 1, "ram"), ("mbc1", 128, 4, "regs"), ("mbc1", 8, 4, "ram"), ("mbc2", 16, 1, "regs"), ("mbc2", 4, 1, "ram"),
              ("mbc3", 128, 4, "regs"), ("mbc3", 16, 4, "ram"), ("mbc5", 512, 16, "regs"), ("mbc5", 64, 4, "ram")]
MC_QUICK = [("mbc1", 128, 4, "regs"), ("mbc2", 16, 1, "regs"), ("mbc3", 16, 4, "ram"), ("mbc5", 512, 16, "regs")]


def features(r):
    ev = r.get("event")
    sc = r["scenario"]
    f = {"kind": sc["reset"][0], "rom_banks": sc["reset"][1], "ram_banks": sc["reset"][2], "timer": sc["reset"][3]}
    if ev:
        f["event_kind"] = ev[0]
        if ev[0] in ("r", "w"):
            a = ev[1]
            f["region"] = "rom0" if a < 0x4000 else "romx" if a < 0x8000 else "ram"
        if ev[0] == "panic":
            f["panic_op"] = ev[1].split()[0]
            m = re.search(r"^(\w+) ([0-9a-f]{4})", ev[1])
            if m:
                a = int(m.group(2), 16)
                f["region"] = "rom0" if a < 0x4000 else "romx" if a < 0x8000 else "ram"
    m = re.match(r"(\w+), (\d+), (\d+), (\d+), (\d+), (\d+)", r.get("state", ""))
    if m:
        f.update(ramg=m.group(1) == "TRUE", romb=int(m.group(5)), ramb=int(m.group(6)))
        f["romb_zero"] = int(m.group(5)) == 0
        f["romb_ge_banks"] = int(m.group(5)) >= sc["reset"][1]
        f["ramb_ge_banks"] = int(m.group(6)) >= sc["reset"][2]
        f["ramb_ge_8"] = int(m.group(6)) >= 8
    return f


def describe(r):
    ev = r.get("event")
    sc = r["scenario"]
    return ("%s cartridge (%d ROM banks, %d RAM banks): event %d %s after registers [%s] is not a step of MBC_Trace (scenario %s)"
            % (sc["reset"][0], sc["reset"][1], sc["reset"][2], r["index"], ev, r.get("state", ""), r["id"]))


def run_mbc(run, fams, mode, rule):
    run.build()
    for kind, rom, ram, m in (MC_QUICK if run.tier == "quick" else MC_CONFIGS):
        run.mc(SPECDIR, "MBC_MC.tla", "MBC_MC.cfg", env={"KIND": kind, "ROMBANKS": rom, "RAMBANKS": ram, "MODE": m}, workers=4, timeout=1200,
               name="register state graph of %s under all control writes (%s)" % (kind, m))
    files = []
    infos = []
    for fam in fams:
        fs, inf = run.gen("mbc", fam=fam)
        files += fs
        infos += inf
    accepted, ids = run.validate(files, SPECDIR, "MBC_Trace.tla", "MBC_Trace.cfg", env={"MODE": mode})
    run.cov["traces_validated_against_impl"] += len(accepted)
    run.count_distinct(files, key=lambda e, s: [s["reset"], e])
    run.note_samples(files, k=2)
    run.cov["rule"] = rule
    run.cov["constructor_failures_skipped"] = sum(i.get("constructor_failures", 0) for i in infos)
    run.assumptions += ["ROM images carry a position-dependent pattern (machine.Sig / MBC!Sig) so a window read identifies the mapped page exactly",
                        "initial RAM contents are not pinned: the first read of a never-written cell defines it"]
    run.triage("mbc", files, accepted, ids, SPECDIR, "MBC_Trace.tla", "MBC_Trace.cfg", "MBC_TraceDiag.cfg", features, describe=describe, env={"MODE": mode})


def replay(run, path):
    return vlib.generic_replay(run, path, "mbc", SPECDIR, "MBC_Trace.tla", "MBC_Trace.cfg", env={"MODE": run.prop})
