"""Shared flow of C08 / C09: MBC.tla (leg A) + validation of recorded cartridge bus operations (leg B)."""
import json
import os
import re

import vlib

SPECDIR = os.path.join(vlib.SPEC, "mbc")

MC_CONFIGS = [("none", 2, 1, "ram"), ("mbc1", 128, 4, "regs"), ("mbc1", 8, 4, "ram"), ("mbc2", 16, 1, "regs"), ("mbc2", 4, 1, "ram"),
              ("mbc3", 128, 4, "regs"), ("mbc3", 16, 4, "ram"), ("mbc5", 512, 16, "regs"), ("mbc5", 64, 4, "ram")]
MC_QUICK = [("mbc1", 128, 4, "regs"), ("mbc2", 16, 1, "regs"), ("mbc3", 16, 4, "ram"), ("mbc5", 512, 16, "regs")]


def features(r):
    ev = r.get("event")
    sc = r["scenario"]
    f = {"kind": sc["reset"][0], "rom_banks": sc["reset"][1], "ram_banks": sc["reset"][2], "timer": sc["reset"][3]}
    if ev:
        f["event_kind"] = ev[0]
        if ev[0] in ("r", "w"):
            a = ev[1]
            f["region"] = "rom0" if a < 0x4000 else "romx" if a < 0x8000 else "ram"
        if ev[0] == "panic":
            f["panic_op"] = ev[1].split()[0]
            m = re.search(r"^(\w+) ([0-9a-f]{4})", ev[1])
            if m:
                a = int(m.group(2), 16)
                f["region"] = "rom0" if a < 0x4000 else "romx" if a < 0x8000 else "ram"
    m = re.match(r"(\w+), (\d+), (\d+), (\d+), (\d+), (\d+)", r.get("state", ""))
    if m:
        f.update(ramg=m.group(1) == "TRUE", romb=int(m.group(5)), ramb=int(m.group(6)))
        f["romb_zero"] = int(m.group(5)) == 0
        f["romb_ge_banks"] = int(m.group(5)) >= sc["reset"][1]
        f["ramb_ge_banks"] = int(m.group(6)) >= sc["reset"][2]
        f["ramb_ge_8"] = int(m.group(6)) >= 8
    return f


def describe(r):
    ev = r.get("event")
    sc = r["scenario"]
    return ("%s cartridge (%d ROM banks, %d RAM banks): event %d %s after registers [%s] is not a step of MBC_Trace (scenario %s)"
            % (sc["reset"][0], sc["reset"][1], sc["reset"][2], r["index"], ev, r.get("state", ""), r["id"]))


def run_mbc(run, fams, mode, rule):
    run.build()
    for kind, rom, ram, m in (MC_QUICK if run.tier == "quick" else MC_CONFIGS):
        run.mc(SPECDIR, "MBC_MC.tla", "MBC_MC.cfg", env={"KIND": kind, "ROMBANKS": rom, "RAMBANKS": ram, "MODE": m}, workers=4, timeout=1200,
               name="register state graph of %s under all control writes (%s)" % (kind, m))
    # Leg C: one test per (register state, control write) of the "regs" graphs, emitted by TLC and replayed on the real controller
    legc_cfgs = [("mbc1", 128, 4), ("mbc2", 16, 1), ("mbc3", 128, 4), ("mbc5", 512, 16)]
    if run.tier == "thorough":
        legc_cfgs += [("mbc1", 8, 1), ("mbc1", 64, 4), ("mbc3", 16, 1), ("mbc5", 64, 4), ("mbc2", 4, 1)]
    mism = []
    for kind, rom, ram in legc_cfgs:
        out = run.mc(SPECDIR, "MBC_MC.tla", "MBC_MC_emit.cfg", env={"KIND": kind, "ROMBANKS": rom, "RAMBANKS": ram, "MODE": "regs", "EMIT": "1"}, workers=4, timeout=1200,
                     name="leg C emission: %s %d/%d" % (kind, rom, ram), keep_output=True)
        tin = os.path.join(run.tmp, "legc-%s-%d-%d.ndjson" % (kind, rom, ram))
        tout = tin.replace(".ndjson", "-out.ndjson")
        n = 0
        with open(tin, "w") as fh:
            pat = r'<<"T",\s*' + r',\s*'.join([r'(\d+)'] * 10) + r',\s*<<"(\w+)"(?:,\s*(\d+))?>>\s*>>'
            for m in re.finditer(pat, out):
                g = m.groups()
                fh.write(json.dumps({"kind": kind, "rom": rom, "ram": ram, "st": [int(x) for x in g[0:6]], "a": int(g[6]), "v": int(g[7]), "low": int(g[8]), "high": int(g[9]),
                                     "tgt": [g[10]] + ([int(g[11])] if g[11] else [])}) + "\n")
                n += 1
        if n < 500:
            raise vlib.Infra("leg C: TLC emitted only %d tests for %s" % (n, kind))
        p, _, infos_c = run.drive("mbc", "legc", "-in", tin, "-out", tout, env={"MODE": mode})
        lc = infos_c[-1]
        run.cov["legs"].append({"leg": "C", "kind": kind, "rom_banks": rom, "ram_banks": ram, "tests_replayed": lc["tests"], "mismatches": lc["mismatches"], "source_states": lc["source_states"]})
        run.cov["events_validated"] += lc["tests"]
        run.cov["evaluations"] += lc["tests"]
        vlib.log("leg C %s %d/%d: %d spec transitions replayed on the real controller, %d mismatches" % (kind, rom, ram, lc["tests"], lc["mismatches"]))
        mism += [json.loads(l) for l in open(tout)]
    files = []
    infos = []
    for fam in fams:
        fs, inf = run.gen("mbc", fam=fam)
        files += fs
        infos += inf
    accepted, ids = run.validate(files, SPECDIR, "MBC_Trace.tla", "MBC_Trace.cfg", env={"MODE": mode})
    run.cov["traces_validated_against_impl"] += len(accepted)
    run.count_distinct(files, key=lambda e, s: [s["reset"], e])
    run.note_samples(files, k=2)
    run.cov["rule"] = rule
    run.cov["constructor_failures_skipped"] = sum(i.get("constructor_failures", 0) for i in infos)
    run.assumptions += ["ROM images carry a position-dependent pattern (machine.Sig / MBC!Sig) so a window read identifies the mapped page exactly",
                        "initial RAM contents are not pinned: the first read of a never-written cell defines it"]
    run.triage("mbc", files, accepted, ids, SPECDIR, "MBC_Trace.tla", "MBC_Trace.cfg", "MBC_TraceDiag.cfg", features, describe=describe, env={"MODE": mode})
    rej = []
    for m in mism[:40]:
        t = m["test"]
        rej.append({"id": "legc-%s" % t["kind"], "block": "mbc", "scenario": {"reset": [t["kind"], t["rom"], t["ram"], 0], "ev": m["script"]}, "index": len(m["script"]),
                    "event": m["script"][-1] if m["script"] else None, "state": "%s, %d, %d, %d, %d, %d" % ("TRUE" if t["st"][0] else "FALSE", t["st"][1], t["st"][2], t["st"][3], t["st"][4], t["st"][5]),
                    "legc": m, "what": "leg C: %s (%d ROM / %d RAM banks) from registers %s, write %02X to %04X: MBC.tla expects windows (%d, %d) and A005 -> %s; the real controller gave %s"
                    % (t["kind"], t["rom"], t["ram"], t["st"], t["v"], t["a"], t["low"], t["high"], t["tgt"], m["got"])})
    if rej:
        run.handle_rejections(rej, features)


def replay(run, path):
    return vlib.generic_replay(run, path, "mbc", SPECDIR, "MBC_Trace.tla", "MBC_Trace.cfg", env={"MODE": run.prop})
