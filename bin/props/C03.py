"""C03 - memory reads and writes happen in the documented machine cycle."""
import cpu_common

LEVEL = "model_checking"


def check(run):
    cpu_common.run_cpu(run, ["mem", "pert", "edge", "seq", "flags", "keys", "dbg", "dma"],
                       "mem = every opcode with all pointer registers / operands steered into WRAM, echo, HRAM, VRAM (LCD off), cartridge RAM, sound I/O and ROM; the bus log gives the "
                       "machine cycle of every Mapper.Read/Write and must equal the access plan of SM83!Exec (cycle, direction, address, value); "
                       "pert = the harness rewrites every candidate address before each machine cycle and snapshots it after each cycle, so the value consumed identifies the read cycle "
                       "and the snapshot identifies the write cycle without trusting the bus hook; flags = taken/not-taken variants. "
                       "edge = boundary operand bytes / pointer low bytes (address carries); seq = generated programs executed back to back without resetting the CPU between instructions; "
                       "distinct_nontrivial = distinct (opcode, cycles, flags) tuples", "C03")


    cpu_common.rom_traces(run, "C03")


replay = cpu_common.replay
