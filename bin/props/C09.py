"""C09 - cartridge RAM is gated, banked and retained per controller."""
import mbc_common

LEVEL = "model_checking"


def check(run):
    mbc_common.run_mbc(run, ["ram"], "C09",
                       "ram = cartridge type x declared RAM size x random sequences of RAM-enable writes (low nibble A and others), bank/mode/ROM-bank register writes incl. out-of-range numbers, "
                       "reads and writes over the whole A000-BFFF window (boundary + random offsets), DumpRAM at the end (length and every written offset in every bank). "
                       "distinct_nontrivial = distinct (cartridge, event) payloads")


replay = mbc_common.replay
