"""C07 - a write changes only the state documented for its address."""
import mem_common

LEVEL = "model_checking"


def check(run):
    mem_common.run_mem(run, ["fp"],
                       "fp = one write, the complete 64 KiB address space read before and after it (no time passing in between); every address whose readable value changed must be in MemMap!Footprint of the written "
                       "address. Every I/O-page address and region boundary x several values plus random (address, value) pairs, from 4 start states (2 randomised machines, LCD off, power-on). "
                       "distinct_nontrivial = distinct (address, value) writes")


replay = mem_common.replay
