"""Shared flow of C01, C02, C03: SM83.tla (leg A) + validation of recorded instruction units (leg B)."""
import json
import os

import vlib

SPECDIR = os.path.join(vlib.SPEC, "cpu")


def features(r):
    ev = r.get("event")
    f = {"kind": ev[0] if ev else None}
    if ev and ev[0] in (1, 2):
        f["op"] = ev[2][0]
        f["cb"] = ev[2][1] if ev[2][0] == 0xcb else None
        pre, post = ev[1], (ev[4] if ev[0] == 1 else ev[-2])
        f["regs_differ"] = pre[:9] != post[:9]
    return f


def describe(r):
    ev = r.get("event")
    if not ev:
        return "scenario %s rejected" % r["id"]
    if ev[0] in (1, 2):
        ob = ev[2]
        name = ("CB %02X" % ob[1]) if ob[0] == 0xcb else ("%02X %02X %02X" % tuple(ob))
        post, n = (ev[4], ev[5]) if ev[0] == 1 else (ev[-2], ev[-1])
        run_state = ""
        if ev[0] == 1 and len(ev) >= 7 and ev[6] != (1 if ob[0] == 0x76 else 0):
            run_state = " and was left %s" % "+".join(w for b, w in ((1, "halted"), (2, "stopped"), (4, "with the halt bug armed")) if ev[6] & b or (b == 1 and ev[6] == 0))
        if ev[0] == 1 and len(ev) >= 8 and ev[7] >= 0:
            run_state += " (a key event arrived after machine cycle %d of it)" % ev[7]
        return ("instruction %s from registers %s: the real CPU produced registers %s in %d cycles%s with bus log %s - not SM83!Exec's result"
                % (name, ev[1], post, n, run_state, json.dumps(ev[3])[:300]))
    return "daa.csv row %s disagrees with SM83!Daa" % ev[1:]


def run_cpu(run, fams, rule, mode, mc=True):
    run.build()
    if mc:
        run.mc(SPECDIR, "SM83_MC.tla", "SM83_MC.cfg", env={"LATTICE": "small" if run.tier == "quick" else "big"},
               name="every defined opcode x boundary lattice; frame conditions, cycle table, access plan, ALU identities",
               heap="24g", timeout=3000, workers=12)
    if mc and mode in ("C01", "C02"):
        # the repository's own instruction table (lengths, clock cycles, flag columns) as an independent description
        d = os.path.join(run.tmp, "tr-cpu-meta")
        os.makedirs(d, exist_ok=True)
        _, sums, _ = run.drive("cpu", "meta", "-out", d)
        run.mc(SPECDIR, "SM83_Meta.tla", "SM83_Meta.cfg", env={"TRACE": sums[0]["files"][0]}, workers=4,
               name="ILen / CyclesDoc / Exec's flag effects against the 501 rows of instruction_metadata.go")
    files = []
    for fam in fams:
        fs, _ = run.gen("cpu", fam=fam)
        files += fs
    accepted, ids = run.validate(files, SPECDIR, "Cpu_Trace.tla", "Cpu_Trace.cfg", heap="5g", env={"MODE": mode})
    run.cov["traces_validated_against_impl"] += len(accepted)

    def key(e, s):
        if e[0] == 1:
            return [e[0], e[2][0], e[2][1] if e[2][0] == 0xcb else None, e[1][:2], e[4][:2], e[5]]
        if e[0] == 2:
            return [e[0], e[2][0], e[2][1] if e[2][0] == 0xcb else None, e[1][:2], e[-2][:2], e[-1]]
        return e
    run.count_distinct(files, key=key)
    run.note_samples(files, k=2)
    run.cov["rule"] = rule
    run.assumptions += ["memory is an input: every byte the instruction reads is taken from the recorded bus access (a broken mapper cannot raise an alarm here)",
                        "pointer registers are kept out of FE00-FEFF (C17) and off the instruction's own bytes; STOP is only required to leave registers and memory unchanged"]
    run.triage("cpu", files, accepted, ids, SPECDIR, "Cpu_Trace.tla", "Cpu_Trace.cfg", "Cpu_TraceDiag.cfg", features, describe=describe, env={"MODE": mode})


INT_SPECDIR = os.path.join(vlib.SPEC, "intctl")


def rom_traces(run, mode):
    """Windows of the repository's own test ROMs, executed on the full machine, validated unit by unit against
    IntCtl (which unit had to happen) and SM83!Exec (effect / cycles / access timing, by MODE)."""
    files, _ = run.gen("int", fam="rom")
    # instructions in the CPU states only a real HALT produces: every opcode after HALT with the halt bug armed, after waking, after idling
    hfiles, _ = run.gen("int", fam="haltop")
    files = files + hfiles
    accepted, ids = run.validate(files, INT_SPECDIR, "Int_Trace.tla", "Int_Trace.cfg", env={"MODE": mode}, heap="6g")
    run.cov["traces_validated_against_impl"] += len(accepted)
    run.cov["rom_windows_validated"] = len(accepted)
    n = 0
    for f in files:
        for line in open(f):
            n += len(json.loads(line)["ev"])
    run.cov["rom_units_validated"] = n
    run.cov["events_validated"] += n
    run.cov["evaluations"] += n
    run.cov["rule"] += (" rom = windows of consecutive units of the repository's test ROMs (blargg cpu_instrs / instr_timing / mem_timing / halt_bug, mooneye interrupt tests) on the full machine with the hardware "
                        "raising interrupts, each unit validated against IntCtl and SM83!Exec; "
                        "haltop = HALT followed by every defined opcode x IME x {nothing pending, halt bug, request after 0-8 idle cycles}, same validation.")

    def feats(r):
        ev = r.get("event")
        return {"family": "rom" if "rom" in r["id"] else "haltop", "op": ev[1][0] if ev else None}

    def desc(r):
        ev = r.get("event")
        sc = r["scenario"]
        if "rom" not in r["id"]:
            import int_common
            return int_common.describe(r) + " (MODE %s)" % mode
        return "ROM %s window (skip %s): unit %d at PC=%04X bytes %s -> registers %s in %d cycles is not a step of Int_Trace (MODE %s) from [%s]" % (
            os.path.basename(str(sc["reset"][3])), sc["reset"][4], r["index"], ev[0][9] if ev else 0, ev[1] if ev else None, ev[3] if ev else None, ev[4] if ev else 0, mode, r.get("state"))
    run.triage("int", files, accepted, ids, INT_SPECDIR, "Int_Trace.tla", "Int_Trace.cfg", "Int_TraceDiag.cfg", feats, describe=desc, env={"MODE": mode})


def replay(run, path):
    return vlib.generic_replay(run, path, "cpu", SPECDIR, "Cpu_Trace.tla", "Cpu_Trace.cfg", env={"MODE": run.prop})
