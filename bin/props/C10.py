"""C10 - the MBC3 real-time clock keeps time and latches correctly."""
import os
import re

import vlib

LEVEL = "model_checking"
SPECDIR = os.path.join(vlib.SPEC, "rtc")


def features(r):
    ev = r.get("event")
    return {"event_kind": ev[0] if ev else None}


def check(run):
    run.build()
    run.mc(SPECDIR, "RTC_MC.tla", "RTC_MC.cfg", env={"DEPTH": 3 if run.tier == "quick" else 5}, timeout=3000, heap="24g",
           name="boundary counter states x all op sequences (second passes, latch 0/1, register writes, halt)")
    files = []
    for fam in ("step", "hist", "real"):
        fs, _ = run.gen("rtc", fam=fam)
        files += fs
    accepted, ids = run.validate(files, SPECDIR, "RTC_Trace.tla", "RTC_Trace.cfg")
    run.cov["traces_validated_against_impl"] += len(accepted)
    run.count_distinct(files)
    run.note_samples(files, k=2)
    run.cov["exhaustive"] = False
    run.cov["rule"] = ("step = one increment from every counter state s,m in 0..63 x h in 0..31 x 8 boundary day values x carry (thorough; a boundary lattice in quick) plus all 512 day values at the "
                       "midnight roll-over x carry, live counters set and read through the verif hook; hist = random histories of enable/select/latch 0/latch 1/register read/register write/halt through the Mapper "
                       "interleaved with elapsed time (the hook moves the sub-second count close to 2^20 so that a second costs a few real cycles); real = the full 1,048,576 real cycles of a second, halted and not. "
                       "distinct_nontrivial = distinct event payloads")
    run.assumptions += ["latch writes other than 0 and 1 are not judged", "the hook VerifRTCSet/VerifRTCSetTicks only sets state between events; every tick is a real Mapper.EndMachineCycle"]
    run.triage("rtc", files, accepted, ids, SPECDIR, "RTC_Trace.tla", "RTC_Trace.cfg", "RTC_TraceDiag.cfg", features)


def replay(run, path):
    return vlib.generic_replay(run, path, "rtc", SPECDIR, "RTC_Trace.tla", "RTC_Trace.cfg")
