"""X02 (beyond the listed properties) - CPU access to wave RAM while channel 3 plays."""
import os

import vlib

LEVEL = "trace_validation"
SPECDIR = os.path.join(vlib.SPEC, "apu")


def features(r):
    ev = r.get("event")
    return {"event_kind": ev[0] if ev else None, "frequency": r["scenario"]["reset"][2]}


def describe(r):
    return ("wave RAM scenario %s (frequency %d): event %d %s (0/1 = read/write while playing [kind, offset, value, position, fresh], 2/3 = plain read/write, 4 = restart) "
            "is not a step of WaveAcc_Trace from [mode, possible bytes] = [%s]" % (r["id"], r["scenario"]["reset"][2], r["index"], r.get("event"), r.get("state", "")))


def check(run):
    run.build()
    files, _ = run.gen("apu", fam="waveacc")
    accepted, ids = run.validate(files, SPECDIR, "WaveAcc_Trace.tla", "WaveAcc_Trace.cfg")
    run.cov["traces_validated_against_impl"] += len(accepted)
    run.count_distinct(files, key=lambda e, s: [s["reset"][2] % 2, e[0], e[4] if len(e) > 4 else None, e[2] == 255 if len(e) > 2 else None])
    run.note_samples(files, k=1)
    run.cov["rule"] = ("channel 3 playing at the fastest frequencies (periods of 2 to 300 clocks): reads and writes of random wave RAM addresses at random distances, the channel's position "
                       "taken through the hook; the channel switched off four times per scenario and all sixteen bytes read back")
    run.assumptions += ["'a couple of clocks' is not a number: right after a fetch a read may return FF or the byte being played, a write may or may not land; with an even "
                        "frequency value all such accesses of a run must behave alike",
                        "retriggering the playing channel (which corrupts wave RAM on a DMG) is not exercised"]
    run.triage("apu", files, accepted, ids, SPECDIR, "WaveAcc_Trace.tla", "WaveAcc_Trace.cfg", "WaveAcc_TraceDiag.cfg", features, describe=describe)


def replay(run, path):
    return vlib.generic_replay(run, path, "apu", SPECDIR, "WaveAcc_Trace.tla", "WaveAcc_Trace.cfg")
