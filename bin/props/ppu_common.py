"""Shared flow of C13 / C14."""
import os

import vlib

SPECDIR = os.path.join(vlib.SPEC, "ppu")


def features(r):
    ev = r.get("event")
    sc = r["scenario"]
    f = {"stat": sc["reset"][0], "lyc": sc["reset"][1], "event_kind": ev[0] if ev else None}
    st = r.get("state", "")
    parts = [p.strip() for p in st.split(",")]
    if len(parts) >= 4:
        f["on"] = parts[0] == "TRUE"
        try:
            f["pos"] = int(parts[1])
            f["line"] = int(parts[1]) // 114
            f["line_cycle"] = int(parts[1]) % 114
        except ValueError:
            pass
        f["fresh"] = parts[3] == "TRUE"
    if ev and ev[0] == 0:
        f["if_bits"] = ev[3]
    return f


def describe(r):
    ev = r.get("event")
    sc = r["scenario"]
    return ("scenario %s (STAT enable %02X, LYC %d): event %d %s (kind, LY, mode, IF bits) is not a step of PPU_Trace from [on, pos, first, fresh] = [%s]"
            % (r["id"], sc["reset"][0], sc["reset"][1], r["index"], ev, r.get("state", "")))


def run_ppu(run, mode, rule):
    run.build()
    configs = [(32, 5), (64, 143)] if run.tier == "quick" else [(0, 0), (8, 0), (16, 0), (32, 0), (64, 0), (64, 1), (64, 143), (64, 144), (64, 153), (64, 154), (64, 255)]
    for src, lyc in configs:
        run.mc(SPECDIR, "PPU_MC.tla", "PPU_MC.cfg", env={"SRC": src, "LYC": lyc}, workers=4, name="whole line/mode graph with LCD on/off in every state, source %d LYC %d" % (src, lyc))
    files = []
    for fam in ("frames", "switch", "rand", "regs"):
        fs, _ = run.gen("ppu", fam=fam)
        files += fs
    accepted, ids = run.validate(files, SPECDIR, "PPU_Trace.tla", "PPU_Trace.cfg", env={"MODE": mode}, heap="6g")
    run.cov["traces_validated_against_impl"] += len(accepted)
    run.count_distinct(files, key=lambda e, s: [s["reset"][0], s["reset"][1] if s["reset"][0] == 64 else 0, e])
    run.note_samples(files, k=1)
    run.cov["rule"] = rule
    run.triage("ppu", files, accepted, ids, SPECDIR, "PPU_Trace.tla", "PPU_Trace.cfg", "PPU_TraceDiag.cfg", features, describe=describe, env={"MODE": mode})


def replay(run, path):
    return vlib.generic_replay(run, path, "ppu", SPECDIR, "PPU_Trace.tla", "PPU_Trace.cfg", env={"MODE": run.prop})
