"""C08 - cartridge ROM banking follows each controller's register semantics."""
import mbc_common

LEVEL = "model_checking"


def check(run):
    mbc_common.run_mbc(run, ["rom1", "mbc1", "romseq"], "C08",
                       "rom1 = cartridge type x declared ROM size (all sizes in thorough) x every value 0..255 written to representative addresses of every control region (first/last, A8 set/clear for MBC2), "
                       "both ROM windows read at pattern offsets after every write; mbc1 = all (bank1, bank2, mode) triples; romseq = random control-write sequences. "
                       "distinct_nontrivial = distinct (cartridge, event) payloads")


replay = mbc_common.replay
