"""C11 - no cartridge image or guest program can crash the emulator."""
import os
import re

import vlib

LEVEL = "fault_enumeration"
SPECDIR = os.path.join(vlib.SPEC, "crash")


def features(r):
    sc = r["scenario"]
    ev = sc["ev"][-1] if sc["ev"] else None
    reset = sc.get("reset", {})
    f = {"family": reset.get("fam"), "last_event": ev[0] if ev else None}
    if ev and ev[0] == "panic":
        msg = ev[1]
        f["panic_kind"] = ("index" if "index out of range" in msg else "nil" if "nil pointer" in msg else "div0" if "divide by zero" in msg else "other")
        m = re.search(r"(read|write) (fe[0-9a-f]{2})", msg)
        f["oam_access"] = bool(m)
        f["cart_kind"] = (reset.get("cart") or "").split("-")[0]
    return f


def describe(r):
    sc = r["scenario"]
    return "scenario %s (%s): %s - a crash / unexplained stop is not an action of Crash.tla" % (r["id"], sc.get("reset"), sc["ev"][-1] if sc["ev"] else None)


def check(run):
    run.build()
    files = []
    for fam in ("images", "ctl", "bus", "oam", "prog", "apu"):
        fs, _ = run.gen("crash", fam=fam)
        files += fs
    accepted, ids = run.validate(files, SPECDIR, "Crash.tla", "Crash.cfg")
    run.cov["traces_validated_against_impl"] += len(accepted)
    run.cov["evaluations"] += len(ids)
    # distinct non-trivial cases: scenarios that constructed and ran operations (a failed construction is trivial)
    import json
    nontrivial = 0
    ops = 0
    for f in files:
        for line in open(f):
            s = json.loads(line)
            if any(e[0] == "ops" and e[1] > 0 for e in s["ev"]):
                nontrivial += 1
                ops += sum(e[1] for e in s["ev"] if e[0] == "ops")
    run.cov["distinct_nontrivial"] = nontrivial
    run.cov["guest_operations_or_cycles_survived"] = ops
    run.note_samples(files, k=3)
    run.cov["rule"] = ("fault enumeration with a TLA+ acceptance oracle (Crash.tla: the only allowed endings are a failed construction and a stop on one of the 11 undefined opcodes). "
                       "images = nil/empty/short/odd-sized images and every cartridge-type byte x ROM-size bytes x RAM-size bytes, followed by a bus battery (control writes, window reads, RAM dump, hardware ticks); "
                       "ctl = every constructible cartridge (incl. ROM sizes the controller cannot address) x every control region x all 256 values, all windows read/written and the RAM dumped after each; "
                       "bus = random multi-step reads/writes over the whole address space (OAM, I/O, cartridge) with the hardware ticking; "
                       "oam = PUSH/POP/16-bit INC/DEC/(HL+-)/LD (nn),SP/CALL/RST with the pointer on 11 OAM / unusable-area addresses, started at every phase (0..115) of a scan line with the LCD on; "
                       "prog = random-byte and grammar-generated programs (pointers steered through FE00-FEFF, LCD toggled, DMA) on the full machine for 4k-20k cycles each, in a child process because undefined opcodes call os.Exit. "
                       "distinct_nontrivial = scenarios that constructed and performed at least one operation")
    run.assumptions += ["a panic during construction counts as 'fails during construction'", "the child process reports the opcode at PC whenever an instruction is about to start with an undefined opcode"]
    run.triage("crash", files, accepted, ids, SPECDIR, "Crash.tla", "Crash.cfg", "CrashDiag.cfg", features, describe=describe,
               rerun_args=("-tier", run.tier, "-seed", run.seed))


def replay(run, path):
    print(open(path).read()[:3000])
    return 0
