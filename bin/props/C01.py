"""C01 - every SM83 instruction has its documented effect on registers, flags and memory."""
import cpu_common

LEVEL = "model_checking"


def check(run):
    cpu_common.run_cpu(run, ["ops", "edge", "seq", "alu", "rot", "bit", "sp", "w16", "keys", "dbg", "daacsv"],
                       "one event per executed instruction (registers before, fetched bytes, per-cycle bus log, registers after, cycles), validated against SM83!Exec: "
                       "ops = every defined opcode (245 + 256 CB) x random full states; alu = 8 ALU ops x A x operand x carry (all 256x256x2 in thorough); "
                       "rot = all CB rotates/shifts and RLCA/RRCA/RLA/RRA x 256 values x carry, DAA x 256 x 16 flag nibbles; bit = INC/DEC r,(HL) x 256 and BIT/RES/SET x 256; "
                       "sp = ADD SP,e / LD HL,SP+e x all e x SP low bytes (all in thorough); w16 = 16-bit INC/DEC (all 65536 values outside FE00-FEFF+-8 in thorough) and ADD HL,rr lattice + random; "
                       "daacsv = the repository's daa.csv rows against SM83!Daa. distinct_nontrivial = distinct (opcode, A/F before, A/F after, cycles) tuples", "C01")


    cpu_common.rom_traces(run, "C01")


replay = cpu_common.replay
