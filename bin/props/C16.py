"""C16 - an OAM DMA transfer copies 160 bytes and blocks OAM meanwhile."""
import os

import vlib

LEVEL = "model_checking"
SPECDIR = os.path.join(vlib.SPEC, "oam")


def features(r):
    ev = r.get("event")
    st = [p.strip() for p in r.get("state", "").split(",")]
    f = {"event_kind": ev[0] if ev else None, "page": r["scenario"]["reset"][1]}
    if len(st) >= 2:
        f["running"] = st[0] == "TRUE"
        try:
            f["t"] = int(st[1])
        except ValueError:
            pass
    return f


def describe(r):
    ev = r.get("event")
    return "DMA scenario %s (page %02X): event %d %s is not a step of DMA_Trace from [running, t] = [%s]" % (
        r["id"], r["scenario"]["reset"][1], r["index"], str(ev)[:160], r.get("state", ""))


def check(run):
    run.build()
    run.mc(SPECDIR, "DMA_MC.tla", "DMA_MC.cfg", name="scaled transfer (2 bytes, bound 4): restarts, source writes and reads at any cycle")
    files, _ = run.gen("dma")
    accepted, ids = run.validate(files, SPECDIR, "DMA_Trace.tla", "DMA_Trace.cfg", heap="6g")
    run.cov["traces_validated_against_impl"] += len(accepted)
    run.count_distinct(files, key=lambda e, s: [s["reset"][1], e[0], e[1] if e[0] in ("t", "sw") else None, e[2] if e[0] == "t" else None])
    run.note_samples(files, k=1)
    run.cov["rule"] = ("every source page 00-F1 (every third in quick plus region boundaries) with randomised source contents (ROM pattern, VRAM, cartridge RAM enabled/disabled, WRAM, echo), the source read through the bus "
                       "right before FF46 is written; after every machine cycle one address of FE00-FEFF (rotating) is read; restarts at random cycles and at every cycle (every 7th in quick) of the transfer for three pages; "
                       "a sub-family rewrites source bytes while the transfer runs; all of OAM is read at the end. distinct_nontrivial = distinct (page, event kind, address, value) observations")
    run.assumptions += ["the completion cycle is not pinned from below: the specification lets the transfer complete at any cycle up to 162 and TLC infers it"]
    run.triage("dma", files, accepted, ids, SPECDIR, "DMA_Trace.tla", "DMA_Trace.cfg", "DMA_TraceDiag.cfg", features, describe=describe)


def replay(run, path):
    return vlib.generic_replay(run, path, "dma", SPECDIR, "DMA_Trace.tla", "DMA_Trace.cfg")
