"""C13 - LCD line and mode timing follow the frame schedule."""
import ppu_common

LEVEL = "model_checking"


def check(run):
    ppu_common.run_ppu(run, "C13",
                       "the real ppu.PPU ticked cycle by cycle, LY and STAT mode read after every machine cycle: frames = 2-3 undisturbed frames per configuration; switch = LCD switched off and on again at every cycle "
                       "(every 5th in quick) of lines 0, 1, 70, 143, 144, 153; rand = random on/off schedules incl. on-while-on and off-while-off. distinct_nontrivial = distinct (configuration, LY, mode, IF) observations")


replay = ppu_common.replay
