"""Runner library: build the harness against /repo's working tree, run TLC,
validate recorded scenarios, classify rejections, write evidence.

Exit codes of a check: 0 = property held on everything explored,
1 = at least one violation reproduced on the real code that known_findings.json
does not list (a line "VIOLATION property=<id> replay=<path>" is printed),
2 = infrastructure problem (build failure, TLC error, timeout, flaky result).
"""
import concurrent.futures as cf
import hashlib
import json
import os
import re
import shutil
import subprocess
import sys
import tempfile
import time

VERIF = os.path.dirname(os.path.dirname(os.path.abspath(__file__)))
SPEC = os.path.join(VERIF, "spec")
HARNESS = os.path.join(VERIF, "harness")
NCPU = os.cpu_count() or 4


class Infra(Exception):
    """Anything that is not a verdict about the code."""


def log(*a):
    print("[check]", *a, flush=True)


class Run:
    def __init__(self, prop, tier, seed, level="model_checking"):
        self.prop = prop
        self.tier = tier
        self.seed = seed
        self.level = level
        self.repo = os.environ.get("VERIF_REPO", "/repo")
        self.t0 = time.time()
        self.tmp = tempfile.mkdtemp(prefix="verif-%s-" % prop, dir=os.environ.get("VERIF_TMP", "/var/tmp"))
        self.drv = None
        self.cov = {
            "states": 0, "transitions": 0, "traces_validated_against_impl": 0,
            "events_validated": 0, "evaluations": 0, "distinct_nontrivial": 0,
            "samples": [], "rule": "", "exhaustive": False, "legs": [],
        }
        self.assumptions = []
        self.violations = []      # dicts: what, replay
        self.known = []           # strings
        self.findings = load_findings()
        self._distinct = set()

    # ------------------------------------------------------------------ env
    def goenv(self):
        e = dict(os.environ)
        e.update(GOFLAGS="-mod=mod", GOPROXY="off", GOSUMDB="off", GOTOOLCHAIN="local")
        e.setdefault("GOCACHE", os.path.expanduser("~/.cache/go-build"))
        return e

    def build(self, race=False):
        """Build drv with -tags verif against the repo's current working tree."""
        h = os.path.join(self.tmp, "harness")
        if not os.path.isdir(h):
            shutil.copytree(HARNESS, h)
            gm = open(os.path.join(h, "go.mod")).read()
            gm = re.sub(r"=> \S+", "=> " + self.repo, gm)
            open(os.path.join(h, "go.mod"), "w").write(gm)
            shutil.copy(os.path.join(self.repo, "go.sum"), os.path.join(h, "go.sum"))
        out = os.path.join(self.tmp, "drv-race" if race else "drv")
        cmd = ["go", "build", "-tags", "verif"] + (["-race"] if race else []) + ["-o", out, "./cmd/drv"]
        p = subprocess.run(cmd, cwd=h, env=self.goenv(), capture_output=True, text=True)
        if p.returncode != 0:
            raise Infra("harness build failed:\n" + p.stdout + p.stderr)
        if not race:
            self.drv = out
        return out

    def drive(self, block, mode, *args, drv=None, timeout=3600, env=None, check=True):
        """Run the driver; returns (stdout, summaries, infos)."""
        cmd = [drv or self.drv, block, mode] + [str(a) for a in args]
        e = dict(os.environ)
        if env:
            e.update(env)
        try:
            p = subprocess.run(cmd, capture_output=True, text=True, timeout=timeout, env=e)
        except subprocess.TimeoutExpired:
            raise Infra("driver timeout: " + " ".join(cmd))
        if check and p.returncode != 0:
            raise Infra("driver failed (%d): %s\n%s" % (p.returncode, " ".join(cmd), (p.stdout + p.stderr)[-4000:]))
        sums, infos = [], []
        for line in p.stdout.splitlines():
            if line.startswith("SUMMARY "):
                sums.append(json.loads(line[8:]))
            elif line.startswith("INFO "):
                infos.append(json.loads(line[5:]))
            elif line.startswith("LEGC "):
                infos.append(json.loads(line[5:]))
        return p, sums, infos

    def gen(self, block, fam=None, name=None, extra=()):
        """drv <block> gen into a fresh directory; returns list of trace files and infos."""
        d = os.path.join(self.tmp, "tr-%s-%s" % (block, name or fam or "all"))
        os.makedirs(d, exist_ok=True)
        args = ["-tier", self.tier, "-seed", self.seed, "-out", d]
        if fam:
            args += ["-fam", fam]
        args += list(extra)
        t = time.time()
        p, sums, infos = self.drive(block, "gen", *args)
        files = []
        for s in sums:
            files += s["files"]
        log("drv %s gen %s: %d scenarios, %d events, %d files, %.1fs" % (
            block, fam or "", sum(s["scenarios"] for s in sums), sum(s["events"] for s in sums), len(files), time.time() - t))
        return files, infos

    # ------------------------------------------------------------------ TLC
    def tlc(self, specdir, module, cfg, env=None, workers=4, timeout=1800, heap=None, extra=()):
        """Run TLC in a scratch copy of specdir. Returns (rc, output)."""
        scratch = tempfile.mkdtemp(prefix="tlc-", dir=self.tmp)
        for d in [specdir] + [os.path.join(SPEC, x) for x in ("common",)]:
            if os.path.isdir(d):
                for f in os.listdir(d):
                    if f.endswith((".tla", ".cfg", ".csv")):
                        shutil.copy(os.path.join(d, f), scratch)
        e = dict(os.environ)
        if env:
            e.update({k: str(v) for k, v in env.items()})
        jopts = "-Xss64m"
        if heap:
            jopts += " -Xmx%s" % heap
        cmd = ["java", "-XX:+UseParallelGC", "-XX:ParallelGCThreads=%d" % max(2, min(8, workers))] + jopts.split() + [
            "-cp", os.environ.get("TLA_CP", tla_classpath()), "tlc2.TLC",
            "-workers", str(workers), "-metadir", os.path.join(scratch, "meta"),
            "-config", cfg, "-noGenerateSpecTE"] + list(extra) + [module]
        try:
            p = subprocess.run(cmd, cwd=scratch, env=e, capture_output=True, text=True, timeout=timeout)
        except subprocess.TimeoutExpired:
            shutil.rmtree(scratch, ignore_errors=True)
            raise Infra("TLC timeout: %s %s" % (module, cfg))
        out = p.stdout + p.stderr
        shutil.rmtree(scratch, ignore_errors=True)
        return p.returncode, out

    def mc(self, specdir, module, cfg, env=None, workers=None, timeout=1800, heap="8g", name=None, coverage=False, extra=(), keep_output=False):
        """Leg A: model-check; the spec must satisfy its properties (else Infra)."""
        t = time.time()
        ex = list(extra)
        if coverage:
            ex += ["-coverage", "1"]
        rc, out = self.tlc(specdir, module, cfg, env=env, workers=workers or min(8, NCPU), timeout=timeout, heap=heap, extra=ex)
        ok = "Model checking completed. No error has been found." in out
        gen, dist = parse_states(out)
        if not ok:
            raise Infra("TLC reported a problem on the specification itself (%s/%s):\n%s" % (module, cfg, tail(out, 60)))
        self.cov["states"] += dist
        self.cov["transitions"] += gen
        leg = {"leg": "A", "module": module, "cfg": cfg, "distinct_states": dist, "generated_states": gen, "wall_s": round(time.time() - t, 1)}
        if name:
            leg["name"] = name
        if env:
            leg["constants"] = {k: v for k, v in env.items() if k != "TRACE"}
        self.cov["legs"].append(leg)
        log("MC %s %s: %d generated / %d distinct, %.1fs" % (module, cfg, gen, dist, time.time() - t))
        return out if keep_output else None

    def validate(self, files, specdir, module, cfg, env=None, procs=None, workers=None, timeout=3600, heap=None):
        """Leg B: validate trace files (NDJSON scenarios). Returns (accepted_ids, all_ids)."""
        if not files:
            return set(), []
        procs = procs or min(len(files), 8)
        workers = workers or max(1, NCPU // procs)
        heap = heap or ("%dg" % max(2, min(12, 48 // procs)))
        all_ids = []
        for f in files:
            all_ids += scenario_ids(f)
        accepted = set()
        t = time.time()

        def one(f):
            e = dict(env or {})
            e["TRACE"] = f
            rc, out = self.tlc(specdir, module, cfg, env=e, workers=workers, timeout=timeout, heap=heap)
            return f, rc, out

        with cf.ThreadPoolExecutor(max_workers=procs) as ex:
            for f, rc, out in ex.map(one, files):
                if "Model checking completed. No error has been found." not in out:
                    raise Infra("TLC failed while validating %s with %s/%s:\n%s" % (f, module, cfg, tail(out, 60)))
                gen, dist = parse_states(out)
                self.cov["states"] += dist
                self.cov["transitions"] += gen
                for m in re.finditer(r'<<\s*"ACCEPT",\s*"([^"]*)"', out):
                    accepted.add(m.group(1))
        log("TLC validated %d files with %s: %d/%d scenarios accepted, %.1fs" % (len(files), module, len(accepted & set(all_ids)), len(all_ids), time.time() - t))
        return accepted, all_ids

    def diagnose(self, scen_lines, specdir, module, cfg, env=None):
        """Run rejected scenarios with the progress printer: returns {id: (max_l, state_text)}."""
        f = os.path.join(self.tmp, "diag-%d.ndjson" % len(os.listdir(self.tmp)))
        with open(f, "w") as fh:
            for line in scen_lines:
                fh.write(line.rstrip("\n") + "\n")
        e = dict(env or {})
        e["TRACE"] = f
        rc, out = self.tlc(specdir, module, cfg, env=e, workers=1, heap="4g")
        if "Model checking completed" not in out:
            raise Infra("TLC failed in diagnosis %s/%s:\n%s" % (module, cfg, tail(out, 60)))
        best = {}
        for m in re.finditer(r'<<\s*"AT",\s*"([^"]*)",\s*(\d+)(.*?)>>', out, re.S):
            sid, l, rest = m.group(1), int(m.group(2)), m.group(3)
            if sid not in best or l > best[sid][0]:
                best[sid] = (l, re.sub(r"\s+", " ", rest).strip(" ,"))
        return best

    # ----------------------------------------------------------- bookkeeping
    def note_samples(self, files, k=3):
        for f in files[:1]:
            with open(f) as fh:
                for i, line in enumerate(fh):
                    if i >= k:
                        break
                    s = json.loads(line)
                    s["ev"] = s["ev"][:12]
                    if isinstance(s.get("reset"), dict):
                        s["reset"] = {kk: (vv if not isinstance(vv, list) or len(vv) <= 16 else vv[:16] + ["..."]) for kk, vv in s["reset"].items()}
                    elif isinstance(s.get("reset"), list) and len(s["reset"]) > 24:
                        s["reset"] = s["reset"][:24] + ["..."]
                    self.cov["samples"].append(s)

    def count_distinct(self, files, key=None, nontrivial=None):
        """Count distinct non-trivial events (hash of the payload) over trace files."""
        n_ev = 0
        for f in files:
            with open(f) as fh:
                for line in fh:
                    s = json.loads(line)
                    for e in s["ev"]:
                        n_ev += 1
                        if nontrivial and not nontrivial(e):
                            continue
                        k = key(e, s) if key else json.dumps(e)
                        self._distinct.add(hashlib.blake2b(k.encode() if isinstance(k, str) else json.dumps(k).encode(), digest_size=8).digest())
        self.cov["events_validated"] += n_ev
        self.cov["evaluations"] += n_ev
        self.cov["distinct_nontrivial"] = len(self._distinct)

    def violation(self, what, replay_obj):
        rdir = os.path.join(VERIF, "replays") if not os.environ.get("VERIF_NOEVIDENCE") else os.path.join("/var/tmp", "verif-selftest-replays")
        os.makedirs(rdir, exist_ok=True)
        n = len(self.violations)
        path = os.path.join(rdir, "%s-%s-%d.json" % (self.prop, self.seed, n))
        with open(path, "w") as fh:
            json.dump(replay_obj, fh, indent=1)
        self.violations.append({"what": what, "replay": path})
        print("VIOLATION property=%s replay=%s" % (self.prop, path), flush=True)
        log("  ^ " + what)

    def known_finding(self, fid, what):
        line = "KNOWN-FINDING: property=%s %s %s" % (self.prop, fid, what)
        if line not in self.known:
            self.known.append(line)
            print(line, flush=True)

    def classify(self, features):
        """Return the id of the open known finding whose match is satisfied by features, else None."""
        for f in self.findings:
            if f.get("status") != "open" or f.get("property") != self.prop:
                continue
            ok = True
            for k, v in f.get("match", {}).items():
                fv = features.get(k)
                if isinstance(v, list):
                    ok = ok and fv in v
                else:
                    ok = ok and fv == v
            if ok:
                return f
        return None

    def handle_rejections(self, rejected, features_of, max_report=5):
        """rejected: list of dicts {id, scenario, index, state, family}. Known findings are
        printed once per finding; anything else is a violation (first max_report get a replay file)."""
        reported = 0
        for r in rejected:
            feats = features_of(r)
            f = self.classify(feats)
            if f is not None:
                self.known_finding(f["id"], f["what"])
                continue
            if reported < max_report:
                self.violation(r.get("what", "scenario %s rejected at event %s" % (r["id"], r.get("index"))), r)
            else:
                self.violations.append({"what": r.get("what", r["id"]), "replay": None})
            reported += 1

    def triage(self, block, files, accepted, ids, specdir, module, cfg, diagcfg, features_of,
               env=None, cap=40, describe=None, rerun_args=(), require_repro=True, rerun_drv=None):
        """Common flow for rejected scenarios: reproduce (re-execute the inputs against the real
        code and validate again), locate the first event no action explains, classify."""
        rejected_ids = [i for i in ids if i not in accepted]
        if not rejected_ids:
            return
        log("%d scenarios rejected; reproducing and locating up to %d of them" % (len(rejected_ids), cap))
        # sample deterministically but spread over the whole list so that different families are seen
        if len(rejected_ids) > cap:
            step = len(rejected_ids) / float(cap)
            pick = [rejected_ids[int(k * step)] for k in range(cap)]
        else:
            pick = rejected_ids
        lines = scenario_lines(files, pick)
        tag = "%s-%d" % (block, len(os.listdir(self.tmp)))
        rin = os.path.join(self.tmp, "rej-%s.ndjson" % tag)
        with open(rin, "w") as fh:
            for i in pick:
                fh.write(lines[i])
        rdir = os.path.join(self.tmp, "rerun-%s" % tag)
        os.makedirs(rdir, exist_ok=True)
        p, sums, _ = self.drive(block, "rerun", "-in", rin, "-out", rdir, *rerun_args, drv=rerun_drv)
        rfiles = []
        for sm in sums:
            rfiles += sm["files"]
        acc2, ids2 = self.validate(rfiles, specdir, module, cfg, env=env, procs=1, workers=4)
        flaky = [i for i in ids2 if i in acc2]
        if flaky and require_repro:
            # a verdict needs a rejection that reproduces when its inputs are re-executed alone on fresh objects; one that
            # does not (it depended on what an earlier scenario left behind in the shared rig) is never reported. If
            # others do reproduce they are reported and the rest is noted; if none does, the run is inconclusive.
            if len(flaky) == len([i for i in pick if i in ids2]):
                raise Infra("rejections not reproducible when re-executed alone: %s" % flaky[:5])
            log("%d of %d rejections did not reproduce when re-executed alone and are not reported: %s" % (len(flaky), len(pick), flaky[:5]))
            self.assumptions.append("%d rejected scenarios of block %s were accepted when re-executed alone and were dropped" % (len(flaky), block))
            pick = [i for i in pick if i not in flaky]
            flaky = []
        rlines = scenario_lines(rfiles, pick)
        if flaky:
            # the property itself is about repeatability: the recorded disagreement is the evidence, keep the original scenario
            for i in flaky:
                rlines[i] = lines[i]
        at = self.diagnose([rlines[i] for i in pick if i in rlines], specdir, module, diagcfg, env=env)
        rej = []
        for i in pick:
            l, st = at.get(i, (0, ""))
            sc = json.loads(rlines.get(i, lines[i]))
            evs = sc["ev"]
            ev = evs[l - 1] if 0 < l <= len(evs) else None
            r = {"id": i, "block": block, "index": l, "event": ev, "state": st, "scenario": sc,
                 "rejected_total": len(rejected_ids)}
            r["what"] = describe(r) if describe else "scenario %s: event %d %s is not a step of %s from spec state [%s]" % (
                i, l, json.dumps(ev)[:200], module, st[:300])
            rej.append(r)
        self.handle_rejections(rej, features_of)
        self.cov["rejected_scenarios"] = self.cov.get("rejected_scenarios", 0) + len(rejected_ids)

    def finish(self):
        cov = self.cov
        if not cov["samples"]:
            cov["samples"] = ["(no samples recorded)"]
        ev = {
            "property_id": self.prop, "tier": self.tier, "seed": int(self.seed), "level": self.level,
            "coverage": cov, "assumptions": self.assumptions,
            "wall_s": round(time.time() - self.t0, 2), "violations": len(self.violations),
            "known_findings": self.known,
        }
        if not os.environ.get("VERIF_NOEVIDENCE"):
            # checks of behaviour beyond the listed properties (ids X..) report under extras/, not evidence/
            sub = "extras" if self.prop.startswith("X") else "evidence"
            os.makedirs(os.path.join(VERIF, sub), exist_ok=True)
            with open(os.path.join(VERIF, sub, "%s.json" % self.prop), "w") as fh:
                json.dump(ev, fh, indent=1)
        shutil.rmtree(self.tmp, ignore_errors=True)
        log("%s %s seed=%s: %d violations, %d known findings, %.1fs" % (self.prop, self.tier, self.seed, len(self.violations), len(self.known), time.time() - self.t0))
        return 1 if self.violations else 0

    def cleanup(self):
        shutil.rmtree(self.tmp, ignore_errors=True)


# ---------------------------------------------------------------------- util
_cp = None


def tla_classpath():
    global _cp
    if _cp is None:
        jar = "/opt/veriftools/tla/tla2tools.jar"
        cands = [jar]
        d = os.path.dirname(jar)
        for f in sorted(os.listdir(d)):
            if f.endswith(".jar") and os.path.join(d, f) not in cands:
                cands.append(os.path.join(d, f))
        _cp = ":".join(cands)
    return _cp


def parse_states(out):
    m = re.findall(r"(\d+) states generated, (\d+) distinct states found", out)
    if not m:
        return 0, 0
    g, d = m[-1]
    return int(g), int(d)


def tail(s, n):
    return "\n".join(s.splitlines()[-n:])


def scenario_ids(path):
    ids = []
    with open(path) as fh:
        for line in fh:
            m = re.match(r'\{"id":"([^"]*)"', line)
            if m:
                ids.append(m.group(1))
            elif line.strip():
                ids.append(json.loads(line)["id"])
    return ids


def scenario_lines(files, wanted):
    """Return {id: line} for the wanted ids."""
    wanted = set(wanted)
    out = {}
    for f in files:
        with open(f) as fh:
            for line in fh:
                m = re.match(r'\{"id":"([^"]*)"', line)
                sid = m.group(1) if m else json.loads(line)["id"]
                if sid in wanted:
                    out[sid] = line
    return out


def load_findings():
    p = os.path.join(VERIF, "known_findings.json")
    if not os.path.exists(p):
        return []
    return json.load(open(p)).get("findings", [])


def generic_replay(run, path, block, specdir, module, cfg, env=None):
    """Re-execute the scenario of a replay file on the current tree and validate it."""
    run.build()
    r = json.load(open(path))
    sc = r.get("scenario")
    if not sc or "id" not in sc:
        print(json.dumps(r, indent=1)[:4000])
        return 0
    rin = os.path.join(run.tmp, "replay.ndjson")
    open(rin, "w").write(json.dumps(sc) + "\n")
    rdir = os.path.join(run.tmp, "rerun")
    os.makedirs(rdir)
    p, sums, _ = run.drive(block, "rerun", "-in", rin, "-out", rdir)
    files = []
    for sm in sums:
        files += sm["files"]
    acc, ids = run.validate(files, specdir, module, cfg, env=env, procs=1, workers=2)
    if set(ids) <= acc:
        print("replay: scenario %s is accepted on this tree" % sc["id"])
        return 0
    print("VIOLATION property=%s replay=%s" % (run.prop, path))
    return 1
