#!/usr/bin/env python3
"""mkmutant.py <name> <file> <old> <new> [<file> <old> <new> ...] -> mutants/<name>.diff (unified diff against /repo)"""
import difflib
import os
import sys

name = sys.argv[1]
args = sys.argv[2:]
out = []
for i in range(0, len(args), 3):
    f, old, new = args[i:i + 3]
    src = open(os.path.join("/repo", f)).read()
    if src.count(old) != 1:
        sys.exit("pattern occurs %d times in %s: %r" % (src.count(old), f, old))
    dst = src.replace(old, new)
    out += list(difflib.unified_diff(src.splitlines(True), dst.splitlines(True), "a/" + f, "b/" + f))
path = os.path.join(os.path.dirname(os.path.dirname(os.path.abspath(__file__))), "mutants", name + ".diff")
open(path, "w").write("".join(out))
print(path)
