#!/usr/bin/env python3
"""Regenerates MANIFEST.json from the table below (one entry per claimed property)."""
import json
import os

VERIF = os.path.dirname(os.path.dirname(os.path.abspath(__file__)))
ALL = ["C%02d" % i for i in range(1, 27)]

TV = ("TLA+ specification of the block checked exhaustively by TLC (leg A); scenarios recorded from the real code "
      "validated against the specification by TLC with all invariants on every step (leg B)")

CLAIMS = {
    "C13": dict(
        category="model_checking",
        text=("PPU.tla: position in the 17,556-cycle frame, the shortened first line after switch-on, LY/mode as functions of the position, LCD on/off as actions enabled in every state. TLC explores the whole graph and checks line length, "
              "LY range and order, the mode schedule and the immediate effect of switching. The real ppu.PPU is ticked cycle by cycle with LY and the STAT mode read after every machine cycle over whole frames, with the LCD switched off/on at every "
              "cycle of lines of each class and under random on/off schedules; TLC validates every cycle."),
        design="5/C13", technique="TLA+ line/mode machine + TLC exhaustive MC; TLC trace validation of per-cycle LY/mode observations",
        note="The convention that the first tick after switch-on shows line 0 cycle 0 and that the two missing cycles come out of mode 0 was confirmed against the code in the design pilots."),
    "C14": dict(
        category="model_checking",
        text=("Same module: VBlank at the cycle line 144 begins, STAT at the rising edge of the single enabled source (HBlank entry, line 144, line starts 0-143, the line where LY becomes LYC), nothing while off; TLC checks these on the whole graph "
              "per source and LYC. The real PPU runs with IF read and cleared after every machine cycle for each single source x LYC values over whole frames and under on/off schedules; TLC validates the request bits of every cycle."),
        design="5/C14", technique="TLA+ request conditions + TLC MC per source/LYC; TLC trace validation of per-cycle IF observations",
        note="Several sources at once, LYC changes while on, the OAM source on line 144 / at switch-on are not judged."),
    "C15": dict(
        category="model_checking",
        text=("Render.tla transcribes the DMG pixel composition (tile colour ids, both maps and addressing modes, scroll, window, objects in OAM order with flips, priority and palettes, clipping at all edges) as pure operators; "
              "TLC checks it on micro-scenes against the statement's clauses (background only, front object wins, background-priority object only over colour 0, clipped not hidden, window placement). Random scenes inside the precondition are "
              "written with the LCD off, read back, rendered by the real PPU for one frame, and TLC validates sampled (thorough: all) pixels against Render!Pixel; shades are calibrated on the same build without depending on the bit-plane order."),
        design="5/C15", technique="TLA+ transcription of the composition function + TLC checks on micro-scenes; bulk TLC validation of rendered pixels",
        note="Data-path function: confidence in the transcription comes from the micro-scene invariants and agreement over thousands of pixels; 8x16 objects, >10 objects per line, unsorted OAM and mid-frame changes are outside the precondition."),
    "C16": dict(
        category="model_checking",
        text=("DMA.tla: a (re)startable transfer that completes at some cycle within a bound, blocks OAM reads meanwhile and leaves each OAM byte with a value its source byte held during the transfer; TLC checks the clauses on a scaled "
              "machine with restarts, source writes and reads at every cycle. Real transfers from every source page (ROM pattern, VRAM, cartridge RAM, WRAM, echo) are run with an OAM read after every machine cycle, restarts at every cycle "
              "and source mutation mid-transfer; TLC infers the completion cycle (<= 162) and validates every read and the final OAM contents."),
        design="5/C16", technique="TLA+ transfer spec + TLC MC on a scaled model; TLC trace validation with the completion cycle inferred",
        note="The completion cycle is only bounded from above, as in the statement; sources are observed through Mapper.Read."),
    "C17": dict(
        category="model_checking",
        text=("OamBug.tla states when the corruption may strike (LCD on and the cycle touches mode 2) and what explains a change of an OAM byte (a CPU write of that value, an active DMA, or the armed bug); a closed model of the arming "
              "condition under the line schedule and LCD switches is model-checked. Generated programs move all 16-bit registers and SP through FE00-FEFF on the real CPU+PPU+OAM; every machine cycle's OAM diff (side-effect-free snapshot) "
              "is validated by TLC, with the LCD switched off at every cycle of lines in every mode and with the LCD on outside mode 2."),
        design="5/C17", technique="TLA+ per-cycle explanation predicate + TLC MC of the arming model; TLC trace validation of per-cycle OAM diffs",
        note="Cycles that touch mode 2 at either end are free (the corruption pattern itself is not part of the statement)."),
    "C18": dict(
        category="model_checking",
        text=("APUReg.tla: stored bits per register, the DMG OR-masks, power (clears every register, gates writes), wave RAM as plain memory while channel 3 is off; TLC checks read-back, off-reads-masks, off-ignores-writes and wave-RAM survival "
              "over registers x values x power toggles. Through the Mapper, random write sequences with power toggles and machine cycles, and every register x every value with sound on and off, are read back; TLC validates every read."),
        design="5/C18", technique="TLA+ register/mask spec + TLC MC; TLC trace validation of recorded register read-backs",
        note="Registers start unknown and are pinned by the first read; the NR52 status nibble belongs to C19; wave RAM while channel 3 plays and after an NR34 trigger is not judged."),
    "C19": dict(
        category="model_checking",
        text=("APUStat.tla: frame sequencer, length counters with the extra length clocks, DAC flags, triggers, channel 1's sweep unit, power; on a scaled machine TLC explores all schedules and checks that a status bit turns on only by a "
              "trigger with the DAC on and off only by DAC/power/expiry/extra clock. On the real APU NR52 is read after every machine cycle (run-length compressed) under random schedules started at every sequencer phase and exact-length "
              "runs; TLC first infers the sequencer phase from a calibration scenario (all 2048 phases), then validates every write and every run of cycles."),
        design="5/C19", technique="TLA+ status/length/sweep spec + TLC MC on a scaled model; two-stage TLC trace validation with inferred sequencer phase",
        note="The scenario defines all length counters and the sequencer step itself (length writes + power cycle first)."),
    "C20": dict(
        category="model_checking",
        text=("APUSamp.tla: sample times follow a 95-clock divider (one re-phasing per epoch tolerated), samples exist only while powered and attached, values are in [0,1) and a side with no routed enabled channel is 0; the scaled divider and the "
              "mixing operator (silence and independence of unrouted channels over all routings) are model-checked. The real audio unit runs with sample channels drained every cycle under random register schedules; every pair is validated by TLC, "
              "a half-attached run must emit nothing (under a watchdog), and paired runs differing only in an unrouted channel must give identical samples on the judged side."),
        design="5/C20", technique="TLA+ sampler spec + TLC MC (scaled) ; TLC trace validation of every emitted sample pair and of paired runs",
        note="Floats are scaled to integers in the harness (TLA+ has no floats)."),
    "C21": dict(
        category="model_checking",
        text=("APUGen.tla: step periods 4(2048-f), 2(2048-f), d(r)*2^s and the LFSR step function; TLC explores the complete LFSR cycle (32767 states; 127 in 7-bit mode). The cycle numbers at which the duty index, wave position and LFSR change "
              "(verif hook) are recorded after a trigger for the frequencies / NR43 values of the quantifier and TLC, inferring the phase of the first step, demands exact periodicity and the m-sequence over more than two full periods."),
        design="5/C21", technique="TLA+ generator spec + TLC exhaustive LFSR cycle; TLC trace validation of recorded generator step times",
        note="In 7-bit mode only the low seven bits (which determine the output sequence) are compared; s >= 14 is outside the statement."),
    "C22": dict(
        category="model_checking",
        text=("Joypad.tla is model-checked over its complete state space (576 states, all 16 key events and all 256 JOYP writes). "
              "The real controller is explored breadth-first through Mapper.Read/Write(FF00) and ButtonAction and every transition is validated "
              "by TLC against the spec (leg B); every transition of the spec's state graph is emitted by TLC and replayed on the real controller (leg C). "
              "Exhaustive in both directions, which is the quantifier of the property."),
        design="5/C22", technique="TLA+ spec + TLC exhaustive MC; TLC trace validation of real-controller BFS; TLC-generated per-transition replay",
        note="Trusts TLC, the Go toolchain and the 60-line joypad driver; a fresh controller is assumed to have no key held."),
    "C01": dict(
        category="model_checking",
        text=("SM83.tla transcribes the documented effect of all 245+256 opcodes as pure operators over the octal decode; TLC checks it over every opcode x a boundary lattice "
              "against independent frame conditions, the documented cycle table, access-plan well-formedness and exhaustive 8-bit ALU identities (leg A). Every instruction executed "
              "by the real CPU in the drivers' sweeps (exhaustive over the 8-bit ALU/shift/bit/DAA spaces, 16-bit INC/DEC and ADD SP,e in thorough; random full states for every opcode) "
              "is recorded with its bus log and validated by TLC against SM83!Exec; the repository's daa.csv is validated against SM83!Daa."),
        design="5/C01", technique="TLA+ transcription of the ISA checked by TLC; bulk TLC trace validation of recorded instruction executions",
        note="The ISA is a data-path function: confidence in the transcription comes from redundancy (identities, daa.csv, independent tables, agreement with the code). STOP only constrained to leave registers/memory unchanged."),
    "C02": dict(
        category="model_checking",
        text=("The documented cycle table (SM83!CyclesDoc, by instruction class, conditional forms from the flags at that moment) is checked by TLC to agree with SM83!Exec on every opcode x flag nibble; "
              "the number of machine cycles between instruction boundaries of the real CPU is recorded for every defined opcode x all 16 flag nibbles (exhaustive) plus random states and "
              "validated by TLC against the table."),
        design="5/C02", technique="TLA+ cycle table + TLC trace validation of recorded per-instruction cycle counts",
        note="Cycle counts are measured as ExecuteMachineCycle calls between boundaries reported by the verif hook VerifAtBoundary (= the CPU's own isFinished)."),
    "C03": dict(
        category="model_checking",
        text=("SM83!Exec carries an access plan (cycle, direction, address, value) per instruction; TLC checks its well-formedness on every opcode. The real CPU's data accesses are observed "
              "two independent ways - the bus hook in Mapper.Read/Write with the machine-cycle index, and a perturbation family in which the harness rewrites memory before every cycle and "
              "snapshots it after every cycle - and TLC validates both against the plan for every opcode with pointers steered into every memory region."),
        design="5/C03", technique="TLA+ access plan + TLC trace validation of bus logs and of per-cycle memory perturbation/snapshot schedules",
        note="Operand (instruction-stream) fetch timing is not constrained; data addresses coinciding with the instruction's own bytes are excluded."),
    "C04": dict(
        category="model_checking",
        text=("IntCtl.tla defines the interrupt-control state (IME, EI delay, halted, halt bug, IE, IF) and, per instruction boundary, which unit must happen (dispatch / instruction / idle / wake). "
              "TLC explores the closed model (any program of control instructions, requests raised at any time) and checks the property's clauses as invariants/action properties. "
              "The real CPU is run on all IME x IE x IF combinations and on every short program over the property's alphabet with requests raised by the harness before every machine-cycle offset; "
              "every unit is validated by TLC: the spec, not the harness, decides whether a dispatch had to happen, which vector, which IF bit, how many cycles, what was pushed."),
        design="5/C04", technique="TLA+ control-state spec + TLC exhaustive MC of the closed model; TLC trace validation of recorded boundary-to-boundary units",
        note="Requests are raised through the interrupts package API between cycles; observed IME is not compared (only dispatch behaviour is); listed 'free' corners are accepted either way."),
    "C05": dict(
        category="model_checking",
        text=("Same specification as C04 (IntCtl.tla): HALT, idle units, wake-up by dispatch (6 cycles) or without IME, and the halt bug (opcode fetch without PC increment, so the byte after HALT is read twice, "
              "checked through SM83!Exec on the doubled bytes). TLC checks the clauses and a liveness property on the closed model; the real CPU is run on HALT x IME x all IE x IF, HALT followed by every defined "
              "opcode in the three pending situations, and all short programs containing HALT, with idle cycles as events of their own."),
        design="5/C05", technique="TLA+ control-state spec + TLC MC (safety, liveness under weak fairness); TLC trace validation of recorded units incl. idle cycles",
        note="Wake-up latency with IME clear is accepted in 0..2 cycles; halt bug followed by CB/HALT and EI directly followed by HALT are not judged."),
    "C06": dict(
        category="model_checking",
        text=("MemMap.tla classifies every address (plain, mirror, void, unmapped, masked register with stored / always-1 / unjudged bits, read-only, DMA) and the trace specification keeps a sparse shadow of the cells seen; "
              "TLC checks the tables' sanity statically. Through Mapper.Read/Write only, from three start states, every I/O-page address and region boundary is written with every value (thorough) and read back, the bulk regions are swept, "
              "random sequences are run, and TLC validates every read."),
        design="5/C06", technique="TLA+ region/mask tables + TLC trace validation of recorded bus read-backs with a sparse shadow memory",
        note="Cartridge areas, JOYP, SB/SC, sound registers are judged by their own properties; STAT bits 0-2 and time-dependent registers only by what the statement pins."),
    "C07": dict(
        category="model_checking",
        text=("MemMap!Footprint gives, per written address, the set of addresses whose readable value may change. The harness reads all 64 KiB before and after a single write (no time passing) and TLC checks that every changed "
              "address is in the footprint: every I/O-page address and region boundary x values plus random pairs, from randomised machine states."),
        design="5/C07", technique="TLA+ footprint table + TLC trace validation of full-address-space diffs around single writes",
        note="Together with C06's own-value check this gives plain-memory behaviour for arbitrary sequences by induction; timer side effects of DIV/TMA/TAC writes on TIMA are allowed by the table."),
    "C08": dict(
        category="model_checking",
        text=("MBC.tla gives each controller's register file and the functions from registers to the mapped ROM banks; TLC explores the complete register state graph of every kind under all control writes "
              "(address class x all 256 values) and checks range, 0-to-1 remap and low-window invariants. Real cartridges (every kind x declared ROM sizes) are driven through the Mapper with every value on every "
              "control region, all MBC1 register triples and random sequences; ROM images carry a position-dependent pattern so each window read identifies the mapped page, and TLC validates every read."),
        design="5/C08", technique="TLA+ register-file spec + TLC exhaustive MC; TLC trace validation of recorded bus operations on patterned ROM images",
        note="Header combinations the constructor rejects are skipped (counted in the evidence). The pattern function is shared between harness (machine.Sig) and spec (MBC!Sig)."),
    "C09": dict(
        category="model_checking",
        text=("Same module: RAM enable, bank selection (modulo the bank count), MBC2's 512 half-bytes, ROM-only's empty window; TLC checks that control writes preserve RAM, banks are independent and disabled RAM "
              "addresses nothing. Real cartridges are driven with random enable/bank/read/write sequences and the RAM dump; the spec tracks every written cell (initial contents unpinned) and TLC validates every read and dump byte."),
        design="5/C09", technique="TLA+ spec with sparse RAM model + TLC MC; TLC trace validation of recorded RAM-window operations and dumps",
        note="MBC3 select values 08-0C belong to C10; 0D-0F and non-timer MBC3 clock selects are not judged."),
    "C10": dict(
        category="model_checking",
        text=("RTC.tla: ripple-carry increment with out-of-range fields, sub-second count, halt, sticky day carry, latch arming and the masked register file; TLC checks the clauses over boundary counter states x all "
              "operation sequences to a depth. The real clock is driven through an MBC3+TIMER cartridge: one increment from every counter state (exhaustive in thorough), random latch/read/write/halt histories with elapsed time, "
              "and full 2^20-cycle seconds; TLC validates every observation."),
        design="5/C10", technique="TLA+ clock spec + TLC MC; TLC trace validation of recorded clock histories",
        note="The verif hook sets counters / the sub-second count between events so that a second costs a few real cycles; full-length seconds are run as well."),
    "C11": dict(
        category="fault_enumeration",
        text=("Crash freedom is monitored, not modelled: every driver wraps every call in recover, and dedicated families enumerate images (short/odd/every header type x sizes), every control write on every constructible "
              "cartridge, random bus sequences, OAM-touching instructions at every scan-line phase, and random / grammar programs in a child process. Crash.tla is the acceptance oracle: the only endings it has actions for are a "
              "failed construction and a stop on one of the 11 undefined opcodes; TLC rejects any recorded panic or unexplained exit."),
        design="5/C11", technique="fault enumeration with a TLA+ acceptance oracle validated by TLC (little modelling content, as stated in DESIGN.md section 7)",
        note="Exploration-level assurance: bounded random programs and enumerated single faults; totality of the block specs (CHECK_DEADLOCK) is the model-side counterpart."),
    "C12": dict(
        category="model_checking",
        text=("Timer.tla (16-bit counter, edge detector, relative overflow/zero/reload pipeline, interrupt bookkeeping) is model-checked by TLC over all operation "
              "sequences up to a depth (quick 4/6, thorough 6/8) from every counter phase around every selected bit edge and the 16-bit wrap, against a declarative "
              "statement of the property. The same alphabet is driven on the real timer.Timer (sampled leaves of the full operation tree plus long random schedules) "
              "and every recorded execution is validated by TLC against the spec, step by step."),
        design="5/C12", technique="TLA+ spec + TLC bounded exhaustive MC; TLC trace validation of recorded timer schedules",
        note="Bounded depth; glitches inside one machine cycle, an edge on the reload tick and the cycle after a cancelled reload are left nondeterministic (the statement is silent)."),
    "C23": dict(
        category="model_checking",
        text=("Serial.tla: the delivered sequence is append-only and equals the sequence of SB writes iff a writer is configured; TLC checks it over all write sequences to depth 6. The real serial port is driven at bus level "
              "and by generated programs on the full machine (every CPU write logged by the bus hook), with and without a writer; TLC validates each write/read and compares the writer's buffer with the spec's `out` at random points and at the end."),
        design="5/C23", technique="TLA+ sequence spec + TLC MC; TLC trace validation of recorded bus writes against the delivered byte stream",
        note="The blargg ROM transcripts are validated by the system-level checks, not here."),
    "C24": dict(
        category="exploration",
        text=("Determinism is a hyperproperty: every ROM is run through package gameboy (stand-in display/speakers, seeded button schedule) twice in one process and once in a child process, with a digest of registers, memory, frame, "
              "cartridge RAM, serial output, timer/RTC state per frame and of the whole audio stream at the end; the TLA+ trace specification demands equality of the three runs and TLC validates it. The modelling content is thin, as DESIGN.md says."),
        design="5/C24", technique="self-composition: recorded digests of repeated runs checked for equality by TLC (thin TLA+ content)",
        note="A disagreement is by nature not repeatable, so rejected scenarios are reported without requiring reproduction."),
    "C25": dict(
        category="exploration",
        text=("Pairs and triples of instances over different ROMs are created in every order and stepped frame-interleaved, machine-cycle-interleaved and concurrently under the race detector, each scenario in its own child process; "
              "the TLA+ trace specification records every instance's solo digests and demands that the instance produces the same digests when it is not alone; a race report or a process exit is an event no action accepts."),
        design="5/C25", technique="self-composition against solo runs + Go race detector; equality decided by TLC on the recorded digests (thin TLA+ content)",
        note="Digests cover CPU registers, 8000-FFFF, frame buffer, cartridge RAM, serial output, timer and RTC state."),
    "C26": dict(
        category="model_checking",
        text=("System.tla: per-cycle progress laws of the components as seen from outside (timer +4, audio 4 clocks, RTC +1, one DMA step, timer overflow -> IF bit 2, CPU first) and the Run state machine (at most one frame after a stop request, "
              "then stopped and released; liveness under weak fairness, model-checked). The observer inside the real runFrame logs every machine cycle of generated busy ROMs and blargg ROMs; TLC validates each cycle and the 17,556-cycle frame; "
              "runFrame is compared frame by frame with the reference loop; gameboy.Run is stopped by cancellation or a close request at random frames with the stand-in display/speakers counting frames and clean-ups."),
        design="5/C26", technique="TLA+ frame-loop/Run spec + TLC MC with liveness; TLC trace validation of per-cycle observer logs, twin-run digests and Run lifecycles",
        note="display/speakers are cgo-free stand-ins under the verif tag; 'CPU first' is observed through what the CPU reads of the other components in the same cycle (twin digests)."),
}

NOT_YET = "machinery for this property is not built yet in this round (work in progress; see DESIGN.md section 5)"


# what was added to a check after its claim text was written (DESIGN.md sections 5 and 6c have the detail)
EXTRA = {
    "C01": " Also validated: windows of the repository's test ROMs and of generated busy programs executed on the full machine (each unit against IntCtl and SM83!Exec), every opcode in the CPU states only a real HALT produces, with a key event in mid-instruction, with the CPU trace on, with an idle second emulator alive; SM83_Meta cross-checks the spec against the repository's own instruction table.",
    "C02": " Also validated: ROM and generated-program windows on the full machine, every opcode after a real HALT, with key events in mid-instruction, with an OAM DMA under way, branches onto themselves (run state after every unit); SM83_Meta cross-checks lengths and cycle counts against the repository's own instruction table.",
    "C03": " Also validated: ROM and generated-program windows on the full machine, every opcode after a real HALT, with key events in mid-instruction, with the CPU trace on, with an OAM DMA under way, and with OAM (LCD off) as a data region.",
    "C04": " Also validated: HALT x IME x IE x IF with late requests, dispatches whose pushes land on IE / IF, ROM and generated-program windows on the full machine.",
    "C05": " Also validated: two-HALT programs, ROM and generated-program windows on the full machine, an idle second emulator alive.",
    "C06": " Also: start state 'LCD switched off in mid-scan', CPU-style accesses (oam.Corrupt after each), register read-back while the hardware behind the register is busy, cross reads of other registers and region-boundary cells after every write.",
    "C07": " Also: footprints from hot states (sound channels running, timer about to overflow, serial transfer under way).",
    "C08": " Leg C: TLC emits one test per (register state, control write) of the complete register graphs (84 k MBC1, 40 k MBC3, 58 k MBC5, 680 MBC2) and the harness replays them on the real controllers.",
    "C09": " Leg C: TLC emits one test per (register state, control write) of the complete register graphs and the harness replays them on the real controllers (RAM target = the one cell that changes in the dump).",
    "C12": " Also validated: whole test ROMs (mooneye timer, blargg timing) and generated programs run by package gameboy's own frame loop, DIV / TIMA / request after every machine cycle against Timer.tla.",
    "C18": " The NR52 status nibble is judged with C19's channel / length model on the shared `len` family (schedules incl. writes while powered off, blargg dmg_sound ROMs as program traces).",
    "C19": " Also validated: blargg dmg_sound ROMs as program traces (CPU writes to FF10-FF26 with NR52 after each).",
    "C23": " Also validated: serial transcripts of blargg ROMs against their SB writes; one run of more than 65,536 bytes.",
}


def main():
    checks = []
    for pid in ALL:
        if pid not in CLAIMS:
            continue
        c = CLAIMS[pid]
        checks.append({
            "property_id": pid,
            "quick_cmd": "bin/check %s --tier quick" % pid,
            "thorough_cmd": "bin/check %s --tier thorough" % pid,
            "evidence_file": "/verif/evidence/%s.json" % pid,
            "replay_cmd_template": "bin/check %s --replay {path}" % pid,
            "engine": "tlc-trace",
            "level_claimed": {"category": c["category"], "text": c["text"] + EXTRA.get(pid, ""), "design_ref": "DESIGN.md section " + c["design"]},
            "level_note": c["note"],
            "technique": c["technique"],
        })
    man = {
        "version": 1,
        "setup_cmd": "bin/setup",
        "hooks": {
            "guard": "verif",
            "enable": "go build -tags verif (the harness module replaces github.com/scottyw/tetromino with /repo and is rebuilt by every check)",
            "baseline_off_cmd": "cd /repo && go test -vet=off -json -count=1 -timeout 25m ./...",
            "source_commits": json.load(open(os.path.join(VERIF, "hooks.json")))["source_commits"],
            "add_only": True,
        },
        "engines": [
            {"name": "tlc-trace", "path": "bin/check", "serves_properties": sorted(CLAIMS),
             "kind_free_text": "python runner: builds harness/ (Go, -tags verif) against /repo's working tree, records scenarios from the real code, "
                               "runs TLC (spec/*) for exhaustive model checking of the spec and for trace validation, replays TLC-generated tests"},
        ],
        "checks": checks,
        "not_applicable": [{"property_id": p, "reason": NOT_YET} for p in ALL if p not in CLAIMS],
        "notes": "See DESIGN.md. known_findings.json lists genuine defects (open = reported as KNOWN-FINDING, fixed = repaired by a fix: commit in /repo).",
    }
    with open(os.path.join(VERIF, "MANIFEST.json"), "w") as fh:
        json.dump(man, fh, indent=1)
    print("MANIFEST.json: %d checks, %d not claimed" % (len(checks), len(man["not_applicable"])))


main()
