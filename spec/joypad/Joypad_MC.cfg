SPECIFICATION JSpec
INVARIANTS TypeOK HighBits LowNibble NoneSelectedAllOnes NoOppositeDirections NoOppositeRead Emit
CHECK_DEADLOCK TRUE
