------------------------------- MODULE Joypad -------------------------------
(* The DMG joypad register JOYP (FF00) and the eight buttons.                *)
(*                                                                          *)
(* Abstract state: the two select bits last written (bits 4-5 of JOYP; a 0  *)
(* selects the group), the set of held direction keys and the set of held   *)
(* button keys. One action per thing the emulator's controller can be asked *)
(* to do: a key press, a key release, a write of JOYP, a read of JOYP.      *)
(* Property C22.                                                            *)
EXTENDS Integers, FiniteSets

Dirs == {"Right", "Left", "Up", "Down"}
Btns == {"A", "B", "Select", "Start"}
Keys == Dirs \cup Btns

\* bit position of each key inside the low nibble of its group
KeyBit(k) == CASE k \in {"Right", "A"} -> 0
               [] k \in {"Left", "B"} -> 1
               [] k \in {"Up", "Select"} -> 2
               [] k \in {"Down", "Start"} -> 3

Opposite(k) == CASE k = "Right" -> "Left" [] k = "Left" -> "Right"
                 [] k = "Up" -> "Down" [] k = "Down" -> "Up"

VARIABLES sel,   \* 0..3: bits 5 and 4 of the last JOYP write
          held   \* set of held keys
jvars == <<sel, held>>

TypeOK == sel \in 0..3 /\ held \subseteq Keys

JInit == sel \in 0..3 /\ held = {}

DirSelected == sel % 2 = 0        \* bit 4 clear
BtnSelected == sel \div 2 = 0     \* bit 5 clear

RECURSIVE SumBits(_)
SumBits(S) == IF S = {} THEN 0 ELSE LET k == CHOOSE k \in S : TRUE IN 2^k + SumBits(S \ {k})

\* the bit positions that read 0
LowZeros == {KeyBit(k) : k \in {k \in held : (k \in Dirs /\ DirSelected) \/ (k \in Btns /\ BtnSelected)}}

\* value returned by a read of FF00
ReadVal == 192 + 16 * sel + (15 - SumBits(LowZeros))

Press(k) ==
   /\ k \in Keys
   /\ held' = IF k \in Dirs THEN (held \ {Opposite(k)}) \cup {k} ELSE held \cup {k}
   /\ UNCHANGED sel

Release(k) ==
   /\ k \in Keys
   /\ held' = held \ {k}
   /\ UNCHANGED sel

WJoyp(v) ==
   /\ v \in 0..255
   /\ sel' = (v \div 16) % 4
   /\ UNCHANGED held

RJoyp(v) == v = ReadVal /\ UNCHANGED jvars

JNext == \/ \E k \in Keys : Press(k) \/ Release(k)
         \/ \E v \in 0..255 : WJoyp(v)

JSpec == JInit /\ [][JNext]_jvars

(* ------------------------- the listed property ------------------------- *)
Bit(v, i) == (v \div (2^i)) % 2

\* bits 6-7 read 1, bits 4-5 echo the select bits
HighBits == ReadVal \div 64 = 3 /\ (ReadVal \div 16) % 4 = sel

\* a 0 exactly for each held key of a selected group
LowNibble ==
   \A i \in 0..3 :
      Bit(ReadVal, i) = 0 <=>
         \E k \in held : KeyBit(k) = i /\ ((k \in Dirs /\ DirSelected) \/ (k \in Btns /\ BtnSelected))

NoneSelectedAllOnes == (sel = 3) => ReadVal % 16 = 15

\* opposite directions are never held together, hence never read as pressed together
NoOppositeDirections ==
   /\ ~({"Left", "Right"} \subseteq held)
   /\ ~({"Up", "Down"} \subseteq held)
NoOppositeRead ==
   (sel = 2) => /\ ~(Bit(ReadVal, 0) = 0 /\ Bit(ReadVal, 1) = 0)
                /\ ~(Bit(ReadVal, 2) = 0 /\ Bit(ReadVal, 3) = 0)
=============================================================================
