----------------------------- MODULE Joypad_MC -----------------------------
(* Leg A: the complete state space of the joypad. Leg C: for every state    *)
(* and every action, the expected read-outs under the four select patterns  *)
(* after the action are emitted (one test per transition).                  *)
EXTENDS Joypad, TLC, Sequences, IOUtils

Emitting == "EMIT" \in DOMAIN IOEnv /\ IOEnv.EMIT = "1"

KeyOrder == <<"Up", "Down", "Left", "Right", "A", "B", "Start", "Select">>

\* read-out under select pattern s for a held set h
ReadOf(s, h) ==
   LET z == {KeyBit(k) : k \in {k \in h : (k \in Dirs /\ s % 2 = 0) \/ (k \in Btns /\ s \div 2 = 0)}}
   IN 192 + 16 * s + (15 - SumBits(z))

HeldList(h) == [i \in 1..8 |-> IF KeyOrder[i] \in h THEN 1 ELSE 0]

AfterPress(h, k) == IF k \in Dirs THEN (h \ {Opposite(k)}) \cup {k} ELSE h \cup {k}

\* one line per (state, action): source state, action, expected reads (sel 0..3) afterwards
EmitAll ==
   /\ \A i \in 1..8 :
        /\ PrintT(<<"T", sel, HeldList(held), "p", i, <<ReadOf(0, AfterPress(held, KeyOrder[i])), ReadOf(1, AfterPress(held, KeyOrder[i])), ReadOf(2, AfterPress(held, KeyOrder[i])), ReadOf(3, AfterPress(held, KeyOrder[i]))>>>>)
        /\ PrintT(<<"T", sel, HeldList(held), "r", i, <<ReadOf(0, held \ {KeyOrder[i]}), ReadOf(1, held \ {KeyOrder[i]}), ReadOf(2, held \ {KeyOrder[i]}), ReadOf(3, held \ {KeyOrder[i]})>>>>)
   /\ \A v \in 0..255 :
        PrintT(<<"T", sel, HeldList(held), "w", v, ReadOf((v \div 16) % 4, held)>>)

Emit == Emitting => EmitAll
=============================================================================
