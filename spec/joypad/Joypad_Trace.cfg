SPECIFICATION TSpec
INVARIANTS TypeOK HighBits LowNibble NoneSelectedAllOnes NoOppositeDirections NoOppositeRead Done
CHECK_DEADLOCK FALSE
