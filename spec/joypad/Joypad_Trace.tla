---------------------------- MODULE Joypad_Trace ----------------------------
(* Leg B: scenarios recorded from the real controller (through the mapper   *)
(* and ButtonAction) are validated against Joypad. One NDJSON line = one    *)
(* scenario = one initial state; events:                                    *)
(*   ["p", key]  ["r", key]  ["w", value]  ["rd", value read from FF00]     *)
EXTENDS Joypad, TLC, Json, IOUtils, Sequences

Scens == ndJsonDeserialize(IOEnv.TRACE)

VARIABLES sc, l
tvars == <<jvars, sc, l>>

Ev == Scens[sc].ev[l]

TInit == /\ sc \in 1..Len(Scens) /\ l = 1
         /\ JInit

TNext == /\ l <= Len(Scens[sc].ev)
         /\ l' = l + 1 /\ UNCHANGED sc
         /\ LET e == Ev IN
            CASE e[1] = "p"  -> Press(e[2])
              [] e[1] = "r"  -> Release(e[2])
              [] e[1] = "w"  -> WJoyp(e[2])
              [] e[1] = "rd" -> RJoyp(e[2])

TSpec == TInit /\ [][TNext]_tvars

Done == (l = Len(Scens[sc].ev) + 1) => PrintT(<<"ACCEPT", Scens[sc].id>>)
Prog == PrintT(<<"AT", Scens[sc].id, l, sel, held>>)
=============================================================================
