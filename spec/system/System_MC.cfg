SPECIFICATION RSpec
INVARIANTS AtMostOneFrameAfterRequest ReleasedIffStopped
PROPERTIES StopsAfterRequest
CONSTRAINT Bounded
CHECK_DEADLOCK FALSE
