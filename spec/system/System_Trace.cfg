SPECIFICATION Spec
INVARIANTS Done AtMostOneFrameAfterRequest
CHECK_DEADLOCK FALSE
