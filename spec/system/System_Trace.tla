----------------------------- MODULE System_Trace -----------------------------
(* Leg B for C26.                                                               *)
(* family "cycles": events recorded by the observer at the end of every machine *)
(* cycle inside the real runFrame:                                              *)
(*   ["c", mtick, div, apu, rtc, dma, tima, if, cpuWroteDiv, cpuStartedDma,     *)
(*         cpuWroteTima, rtcHalted, cpuWroteIF]                                 *)
(*   ["f", cyclesThisFrame]      runFrame returned                              *)
(* family "twin": ["d", frame, digestRunFrame, digestReferenceLoop]             *)
(* family "det" (C24): ["d3", frame, digestRunA, digestRunB, digestChildProcess]  *)
(* family "run": ["frame", n] ["req"] ["ret", displayCleanups, speakerCleanups] *)
EXTENDS System, TLC, Json, IOUtils
Scens == ndJsonDeserialize(IOEnv.TRACE)
VARIABLES sc, l, prevc, n, solo
\* prevc: the previous cycle event (or <<>>); n: cycles seen in the current frame
\* solo: (instance, frame) -> digest of the instance running alone (C25)
vars == <<svars, sc, l, prevc, n, solo>>
Ev == Scens[sc].ev[l]
Init == sc \in 1..Len(Scens) /\ l = 1 /\ prevc = <<>> /\ n = 0 /\ RInit /\ solo = <<>>

CycleEv(e) ==
   /\ e[2] = n                                                     \* the loop index counts 0 .. 17555
   /\ n' = n + 1 /\ n' <= FrameCycles
   /\ IF prevc = <<>> THEN TRUE
      ELSE /\ TimerStep(prevc[3], e[3], e[9] = 1)                  \* timer: +4 once
           /\ AudioStep(prevc[4], e[4])                            \* audio: 4 clocks once
           /\ RtcStep(prevc[5], e[5], e[12] = 1)                   \* clock: +1 once
           /\ DmaStep(prevc[6], e[6], e[10] = 1)                   \* DMA: one step
           \* a timer overflow raises the timer request: TIMA wrapping FF -> 00 without a CPU write leaves IF bit 2 set
           /\ ((prevc[7] = 255 /\ e[7] = 0 /\ e[11] = 0 /\ e[13] = 0) => (e[8] \div 4) % 2 = 1)
   /\ prevc' = e
   /\ UNCHANGED svars

FrameEnd(e) == /\ n = FrameCycles /\ e[2] = FrameCycles /\ n' = 0 /\ UNCHANGED <<prevc, svars>>

Next == /\ l <= Len(Scens[sc].ev) /\ l' = l + 1 /\ UNCHANGED sc
        /\ (Ev[1] # "solo" => UNCHANGED solo)
        /\ LET e == Ev IN
           CASE e[1] = "c" -> CycleEv(e)
             [] e[1] = "solo" -> /\ solo' = [k \in (DOMAIN solo) \cup {<<e[2], e[3]>>} |-> IF k = <<e[2], e[3]>> THEN e[4] ELSE solo[k]]
                                 /\ UNCHANGED <<svars, prevc, n>>
             [] e[1] = "multi" -> /\ <<e[2], e[3]>> \in DOMAIN solo /\ solo[<<e[2], e[3]>>] = e[4]      \* C25: as if it were the only instance
                                  /\ UNCHANGED <<svars, prevc, n>>
             [] e[1] = "f" -> FrameEnd(e)
             [] e[1] = "d" -> e[3] = e[4] /\ UNCHANGED <<svars, prevc, n>>
             [] e[1] = "d3" -> e[3] = e[4] /\ e[4] = e[5] /\ UNCHANGED <<svars, prevc, n>>   \* C24: two runs in this process and one in another process agree
             [] e[1] = "frame" -> Frame /\ frames' = e[2] /\ UNCHANGED <<prevc, n>>
             [] e[1] = "req" -> Request /\ UNCHANGED <<prevc, n>>
             [] e[1] = "ret" -> Stop /\ e[2] = e[4] /\ e[3] = e[5] /\ UNCHANGED <<prevc, n>>
             \* machine cycles executed by Run, modulo the frame length: Run returns between frames, never inside one
             [] e[1] = "cyc" -> e[2] = 0 /\ UNCHANGED <<svars, prevc, n>>
             [] OTHER -> FALSE
Spec == Init /\ [][Next]_vars
Done == (l = Len(Scens[sc].ev) + 1) => PrintT(<<"ACCEPT", Scens[sc].id>>)
Prog == PrintT(<<"AT", Scens[sc].id, l, n, phase, frames, stopReq>>)
=============================================================================
