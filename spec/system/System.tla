-------------------------------- MODULE System --------------------------------
(* The frame loop and Run (property C26).                                      *)
(* One machine cycle = CPU, then video, memory (DMA and clock), audio, timer   *)
(* (a timer overflow raising IF bit 2), each exactly once. A frame is 17,556   *)
(* machine cycles. Run stops after at most one further frame once its context  *)
(* is cancelled or the display asks to close, and then releases its outputs.   *)
EXTENDS Integers, Sequences, FiniteSets

FrameCycles == 17556

(* ---- per-cycle progress of the components, as observable from outside ---- *)
\* div: 16-bit timer counter; apu: audio clock counter; rtc: clock sub-second count; dma: OAM DMA cycle index (-1 idle)
\* cpuWroteDiv / cpuStartedDma: what the CPU did in its part of the cycle (it acts first)
TimerStep(div, div2, cpuWroteDiv) == div2 = (IF cpuWroteDiv THEN 4 ELSE (div + 4) % 65536)
AudioStep(a, a2) == a2 = a + 4 \/ (a + 4 > 4194304 /\ a2 \in 1..8)            \* 4 clocks; the counter wraps once per 2^22
RtcStep(r, r2, halted) == IF halted THEN r2 = r ELSE r2 = (r + 1) % 1048576
DmaStep(d, d2, cpuStartedDma) ==
   IF cpuStartedDma THEN d2 = 1
   ELSE IF d < 0 THEN d2 < 0
   ELSE d2 = d + 1 \/ (d >= 161 /\ d2 < 0)                                   \* one step per cycle, then idle

(* ---- Run ---- *)
VARIABLES phase,      \* "running" or "stopped"
          frames,     \* frames completed
          stopReq,    \* frames completed when the stop was requested (cancel / close), -1 if none
          released    \* outputs released
svars == <<phase, frames, stopReq, released>>
RInit == phase = "running" /\ frames = 0 /\ stopReq = 0 - 1 /\ released = FALSE
Frame == /\ phase = "running"
         /\ (stopReq >= 0 => frames < stopReq + 1)            \* at most one further frame after the request
         /\ frames' = frames + 1 /\ UNCHANGED <<phase, stopReq, released>>
Request == /\ phase = "running" /\ stopReq < 0 /\ stopReq' = frames /\ UNCHANGED <<phase, frames, released>>
Stop == /\ phase = "running" /\ stopReq >= 0
        /\ phase' = "stopped" /\ released' = TRUE /\ UNCHANGED <<frames, stopReq>>
RNext == Frame \/ Request \/ Stop
RSpec == RInit /\ [][RNext]_svars /\ WF_svars(Frame \/ Stop)

AtMostOneFrameAfterRequest == (stopReq >= 0) => frames <= stopReq + 1
ReleasedIffStopped == released <=> (phase = "stopped")
StopsAfterRequest == (stopReq >= 0) ~> (phase = "stopped")
=============================================================================
