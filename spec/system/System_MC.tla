------------------------------- MODULE System_MC -------------------------------
(* Leg A for C26: the Run state machine, bounded, with liveness under weak     *)
(* fairness; and a model of the frame loop with abstract components showing    *)
(* that every component advances exactly once per cycle with the CPU first.    *)
EXTENDS System, TLC
Bounded == frames <= 4
=============================================================================
