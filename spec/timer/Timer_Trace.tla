----------------------------- MODULE Timer_Trace -----------------------------
(* Leg B for C12: scenarios recorded from the real timer.Timer.              *)
(* reset = [counter, tima, tma, tac] as read back after the driver's setup   *)
(* (TAC disabled during setup, so the edge detector input is low).           *)
(* events: ["t", div, tima, irq]  tick + what was read / reported afterwards *)
(*         (ROM traces, recorded inside the real frame loop: irq is derived  *)
(*         from IF bit 2 and is -1 where the bit was already set or the      *)
(*         program wrote IF in that cycle)                                   *)
(*         ["wd"] ["wt", v] ["wm", v] ["wc", v]  register writes             *)
EXTENDS Timer, Json, IOUtils

Scens == ndJsonDeserialize(IOEnv.TRACE)

VARIABLES sc, l
vars == <<tvars, sc, l>>

Ev == Scens[sc].ev[l]

TInit == /\ sc \in 1..Len(Scens) /\ l = 1
         /\ LET r == Scens[sc].reset IN
              /\ counter = r[1] /\ tima = r[2] /\ tma = r[3] /\ tac = r[4]
              /\ prevSig = Sig(r[1], r[4])
         /\ phase = "run" /\ cancel = FALSE /\ tmaw = FALSE /\ owed = 0

TNext == /\ l <= Len(Scens[sc].ev)
         /\ l' = l + 1 /\ UNCHANGED sc
         /\ LET e == Ev IN
            CASE e[1] = "t"  -> /\ IF e[4] < 0 THEN \E i \in {0, 1} : Tick(i) ELSE Tick(e[4])   \* -1: the request was not observable
                                /\ DIV' = e[2] /\ tima' = e[3]
              [] e[1] = "wd" -> WDiv
              [] e[1] = "wt" -> WTima(e[2])
              [] e[1] = "wm" -> WTma(e[2])
              [] e[1] = "wc" -> WTac(e[2])

TSpec == TInit /\ [][TNext]_vars

OwedOnlyInZero == owed = 1 => phase = "zero"
Done == (l = Len(Scens[sc].ev) + 1) => PrintT(<<"ACCEPT", Scens[sc].id>>)
Prog == PrintT(<<"AT", Scens[sc].id, l, phase, counter, tima, tma, tac, cancel, tmaw, owed, prevSig>>)
=============================================================================
