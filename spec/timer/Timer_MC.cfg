SPECIFICATION MSpec
INVARIANTS TypeOK DivIsHighByte StepsOnlyOnFallingEdge OverflowReadsZero ThenReload WriteInZeroCancels ReloadCycleRules OwedOnlyInZero IrqOnlyAroundOverflow OneIrqPerOverflow
PROPERTIES DivWriteClears CounterAdvances4
CHECK_DEADLOCK FALSE
