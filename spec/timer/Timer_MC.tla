------------------------------- MODULE Timer_MC -------------------------------
(* Leg A for C12: all operation sequences up to MaxDepth over                 *)
(* {Tick, WDiv, WTima v, WTma v, WTac t}, at most one write per cycle, from   *)
(* start states covering every counter phase around each edge bit and the    *)
(* 16-bit wrap. The listed property is stated declaratively below and        *)
(* checked against the operational description in Timer.                     *)
EXTENDS Timer, IOUtils

VARIABLES depth,    \* operations so far
          lastop,   \* "t" or "w": at most one write per cycle
          h         \* observation history of the last ticks, newest first:
                    \* records [tima, div, irq, c (counter before), sig (s0,s1,s2), w (write in that cycle), ph (phase before)]
mvars == <<tvars, depth, lastop, h>>

Take(s, n) == SubSeq(s, 1, IF Len(s) < n THEN Len(s) ELSE n)

MaxDepth == IF "DEPTH" \in DOMAIN IOEnv THEN atoi(IOEnv.DEPTH) ELSE 5

StartCounters == {65536 - 12, 65536 - 8, 65536 - 4, 0, 4, 8, 12, 16, 24, 28, 32, 36,
                  116, 120, 124, 128, 132, 500, 504, 508, 512, 516, 1012, 1016, 1020, 1024}
Vals == {0, 254, 255}

Deep == "MODE" \in DOMAIN IOEnv /\ IOEnv.MODE = "deep"

\* wide: every phase around every edge; deep: one or two ticks before an overflow, longer sequences
MInit == /\ IF Deep
            THEN /\ tac \in 4..7 /\ tima = 255 /\ tma = 165
                 /\ counter \in {2 * SelBit(tac) - 8, 2 * SelBit(tac) - 4, 65536 - 8, 65536 - 4}
            ELSE counter \in StartCounters /\ tima \in {253, 254, 255, 0} /\ tma \in {0, 165} /\ tac \in 0..7
         /\ phase = "run" /\ cancel = FALSE /\ tmaw = FALSE /\ owed = 0 /\ prevSig = Sig(counter, tac)
         /\ depth = 0 /\ lastop = "t" /\ h = <<>>

Write == /\ lastop = "t"
         /\ \/ WDiv /\ lastop' = "wd"
            \/ (\E t \in 0..7 : WTac(t)) /\ lastop' = "wc"
            \/ (\E v \in Vals : WTma(v)) /\ lastop' = "wm"
            \/ (\E v \in Vals : WTima(v)) /\ lastop' = "wt"
         /\ UNCHANGED h

TickA == \E irq \in {0, 1} :
           /\ Tick(irq)
           /\ lastop' = "t"
           /\ h' = Take(<<[tima |-> tima', div |-> DIV', irq |-> irq, ph |-> phase, ph2 |-> phase', w |-> lastop,
                             fall |-> prevSig /\ ~prevSig', glitch |-> (prevSig # Sig(counter, tac)) /\ (Sig(counter, tac) # prevSig'),
                             tma |-> tma, pre |-> tima, cancel |-> cancel, tmaw |-> tmaw]>> \o h, 3)

MNext == /\ depth < MaxDepth /\ depth' = depth + 1 /\ (Write \/ TickA)
MSpec == MInit /\ [][MNext]_mvars

(* ------------------------- the listed property ------------------------- *)
\* DIV is the upper byte of the counter; a DIV write clears it
DivIsHighByte == DIV = counter \div 256 /\ DIV \in 0..255
DivWriteClears == [][lastop' = "wd" => counter' = 0]_mvars
CounterAdvances4 == [][lastop' = "t" => counter' = (counter + 4) % 65536]_mvars

\* TIMA increments exactly on falling edges (no glitch inside the cycle, no reload in flight)
StepsOnlyOnFallingEdge ==
   (Len(h) > 0 /\ h[1].ph = "run" /\ ~h[1].glitch /\ h[1].w # "wt") =>
      h[1].tima = (h[1].pre + (IF h[1].fall THEN 1 ELSE 0)) % 256

\* overflow: TIMA reads 00 in the next cycle ...
OverflowReadsZero == (Len(h) > 0 /\ h[1].ph = "run" /\ h[1].ph2 = "zero") => h[1].tima = 0
\* ... and TMA one cycle later, whatever the counter value and whatever was written to DIV/TAC/TMA meanwhile,
\* unless TIMA was written in the zero cycle (cancel) or an edge lands on the reload tick
ThenReload ==
   (Len(h) > 1 /\ h[2].ph = "run" /\ h[2].ph2 = "zero" /\ h[1].w # "wt" /\ ~h[1].fall /\ ~h[1].glitch) =>
      (h[1].tima = h[1].tma /\ h[1].ph2 = "reload")
WriteInZeroCancels ==
   (Len(h) > 1 /\ h[2].ph = "run" /\ h[2].ph2 = "zero" /\ h[1].w = "wt" /\ ~h[1].fall /\ ~h[1].glitch) =>
      (h[1].tima = h[1].pre /\ h[1].ph2 = "after")
\* in the reload cycle a TIMA write is ignored and a TMA write also loads TIMA
ReloadCycleRules ==
   (Len(h) > 0 /\ h[1].ph = "reload" /\ ~h[1].fall /\ ~h[1].glitch) =>
      /\ (h[1].w = "wt" => h[1].tima = h[1].pre)
      /\ (h[1].w = "wm" => h[1].tima = h[1].tma)
\* exactly one interrupt per overflow, no later than the reload
OwedOnlyInZero == owed = 1 => phase = "zero"
IrqOnlyAroundOverflow == (Len(h) > 0 /\ h[1].irq = 1) => (h[1].ph2 = "zero" \/ h[1].ph = "zero")
OneIrqPerOverflow ==
   (Len(h) > 1 /\ h[2].ph = "run" /\ h[2].ph2 = "zero" /\ ~h[1].fall /\ ~h[1].glitch) => h[2].irq + h[1].irq = 1

mview == <<tvars, depth, lastop, h>>
=============================================================================
