SPECIFICATION TSpec
INVARIANTS TypeOK OwedOnlyInZero Done
CHECK_DEADLOCK FALSE
