SPECIFICATION TSpec
INVARIANTS Prog
CHECK_DEADLOCK FALSE
