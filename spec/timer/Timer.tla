-------------------------------- MODULE Timer --------------------------------
(* The DMG timer: DIV/TIMA/TMA/TAC. Property C12.                            *)
(*                                                                           *)
(* One action per thing that can happen in a machine cycle: at most one     *)
(* register write (WDiv, WTima, WTma, WTac) followed by the Tick that ends   *)
(* the cycle. Observations (DIV, TIMA, the interrupt report) are taken after *)
(* a Tick, which is what a CPU read in the following cycle sees.             *)
(*                                                                           *)
(* State                                                                     *)
(*   counter  16-bit system counter, +4 per machine cycle; DIV is its high   *)
(*            byte; any DIV write clears it                                  *)
(*   tima, tma, tac                                                          *)
(*   phase    reload pipeline, *relative* to the overflow, never to counter: *)
(*            "run"    nothing in flight                                     *)
(*            "zero"   the cycle after the overflow: TIMA reads 00; a TIMA   *)
(*                     write in this cycle cancels the reload                *)
(*            "reload" the cycle in which TIMA = TMA was loaded: TIMA writes *)
(*                     are ignored, TMA writes also load TIMA                *)
(*            "after"  the cycle after a *cancelled* reload (the statement   *)
(*                     is silent about it, see WTima/WTma)                   *)
(*   cancel   a TIMA write happened in the "zero" cycle                      *)
(*   tmaw     a TMA write happened in this cycle (matters in "reload")       *)
(*   owed     an overflow happened whose interrupt has not been reported yet *)
(*   prevSig  the edge detector's input at the end of the previous Tick      *)
EXTENDS Integers, Sequences, TLC

VARIABLES counter, tima, tma, tac, phase, cancel, tmaw, owed, prevSig
tvars == <<counter, tima, tma, tac, phase, cancel, tmaw, owed, prevSig>>

Phases == {"run", "zero", "reload", "after"}

TypeOK == /\ counter \in 0..65535 /\ counter % 4 = 0
          /\ tima \in 0..255 /\ tma \in 0..255 /\ tac \in 0..7
          /\ phase \in Phases /\ cancel \in BOOLEAN /\ tmaw \in BOOLEAN
          /\ owed \in {0, 1} /\ prevSig \in BOOLEAN

\* TAC 00 -> bit 9, 01 -> bit 3, 10 -> bit 5, 11 -> bit 7
SelBit(t) == CASE t % 4 = 0 -> 512 [] t % 4 = 1 -> 8 [] t % 4 = 2 -> 32 [] t % 4 = 3 -> 128
\* the edge detector's input: TAC enable AND the selected counter bit
Sig(c, t) == ((t \div 4) % 2 = 1) /\ ((c \div SelBit(t)) % 2 = 1)
DIV == counter \div 256

WDiv == /\ counter' = 0
        /\ UNCHANGED <<tima, tma, tac, phase, cancel, tmaw, owed, prevSig>>

WTac(t) == /\ tac' = t % 8
           /\ UNCHANGED <<counter, tima, tma, phase, cancel, tmaw, owed, prevSig>>

WTma(v) == /\ tma' = v
           /\ IF phase = "after" THEN tmaw' \in BOOLEAN      \* statement silent
              ELSE tmaw' = (phase = "reload")
           /\ UNCHANGED <<counter, tima, tac, phase, cancel, owed, prevSig>>

WTima(v) ==
   /\ CASE phase = "run"    -> tima' = v /\ cancel' = cancel
        [] phase = "zero"   -> tima' = v /\ cancel' = TRUE
        [] phase = "reload" -> tima' = tima /\ cancel' = cancel
        [] phase = "after"  -> tima' \in {tima, v} /\ cancel' = cancel   \* statement silent
   /\ UNCHANGED <<counter, tma, tac, phase, tmaw, owed, prevSig>>

(* The Tick that ends a machine cycle; irq is the interrupt report (0/1).   *)
(* s0: detector input at the end of the previous tick, s1: after this       *)
(* cycle's write, s2: after the counter advanced. A fall s0 -> s2 must      *)
(* increment TIMA. A glitch inside the cycle (fall then rise, or rise then  *)
(* fall) may or may not: the statement speaks of falling edges, an emulator *)
(* that samples once per machine cycle cannot see both halves.              *)
Tick(irq) ==
   LET c2 == (counter + 4) % 65536
       s0 == prevSig
       s1 == Sig(counter, tac)
       s2 == Sig(c2, tac)
       mand == s0 /\ ~s2
       opt == (s0 /\ ~s1 /\ s2) \/ (~s0 /\ s1 /\ ~s2)
       base == CASE phase = "zero" /\ ~cancel -> tma
                 [] phase \in {"reload", "after"} /\ tmaw -> tma
                 [] OTHER -> tima
       incs == IF mand THEN {1} ELSE IF opt THEN {0, 1} ELSE {0}
   IN /\ counter' = c2
      /\ prevSig' = s2
      /\ UNCHANGED <<tma, tac>>
      /\ tmaw' = FALSE
      /\ cancel' = FALSE
      /\ IF phase # "zero"
         THEN \E inc \in incs :
                /\ tima' = (base + inc) % 256
                /\ IF base + inc = 256
                   THEN /\ phase' = "zero" /\ irq \in {0, 1} /\ owed' = 1 - irq
                   ELSE /\ phase' = "run" /\ irq = 0 /\ owed' = 0
         ELSE IF mand \/ opt
              THEN \* an edge lands on the tick that performs the reload: the
                   \* statement does not say which wins; pinned by later observations
                   /\ tima' \in 0..255
                   /\ irq \in {0, 1} /\ irq >= owed
                   /\ \/ phase' = (IF cancel THEN "after" ELSE "reload") /\ owed' = 0
                      \/ phase' = "zero" /\ owed' \in {0, 1}
              ELSE /\ tima' = base
                   /\ phase' = (IF cancel THEN "after" ELSE "reload")
                   /\ irq = owed
                   /\ owed' = 0
=============================================================================
