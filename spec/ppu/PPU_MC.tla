-------------------------------- MODULE PPU_MC --------------------------------
(* Leg A for C13/C14: the whole state graph with LCD on/off in every state.  *)
EXTENDS PPU, TLC, IOUtils

Src == atoi(IOEnv.SRC)
Lyc == atoi(IOEnv.LYC)

VARIABLES run,     \* machine cycles for which LY has had its current value (while on)
          lastLy, act, vbl, stat, sinceVbl,
          fl       \* the current line is the one that started at switch-on
mvars == <<pvars, run, lastLy, act, vbl, stat, sinceVbl, fl>>

Init == PInit /\ run = 0 /\ lastLy = 0 /\ act = "init" /\ vbl = FALSE /\ stat = FALSE /\ sinceVbl = 0 /\ fl = FALSE

T == /\ Tick /\ act' = "tick"
     /\ vbl' = (on /\ VBlankAt(NextPos))
     /\ stat' = (on /\ StatAt(Src, Lyc, NextPos))
     /\ fl' = (IF on /\ ~fresh /\ LYof(NextPos) # LYof(pos) THEN FALSE ELSE fl)
     /\ IF ~on THEN UNCHANGED <<run, lastLy, sinceVbl>>
        ELSE /\ lastLy' = LYof(NextPos)
             /\ run' = IF fresh \/ LYof(NextPos) # LYof(pos) THEN 1 ELSE run + 1
             /\ sinceVbl' = IF VBlankAt(NextPos) THEN 0 ELSE IF sinceVbl < 20000 THEN sinceVbl + 1 ELSE sinceVbl
On == LcdOn /\ act' = "on" /\ vbl' = FALSE /\ stat' = FALSE /\ run' = (IF on THEN run ELSE 0) /\ lastLy' = (IF on THEN lastLy ELSE 0) /\ UNCHANGED sinceVbl /\ fl' = (IF on THEN fl ELSE TRUE)
Off == LcdOff /\ act' = "off" /\ vbl' = FALSE /\ stat' = FALSE /\ run' = 0 /\ lastLy' = 0 /\ sinceVbl' = 20000 /\ fl' = FALSE
Next == T \/ On \/ Off
Spec == Init /\ [][Next]_mvars

LyRange == LY \in 0..153 /\ Mode \in 0..3
\* mode schedule within a line
ModeSchedule == (on /\ ~fresh) =>
   /\ (LYof(pos) >= 144 => Mode = 1)
   /\ (LYof(pos) < 144 => Mode = (IF LCof(pos) < 20 THEN 2 ELSE IF LCof(pos) < 61 THEN 3 ELSE 0))
\* LY advances once every 114 cycles, 112 for the line that started at switch-on
LineLength == [][(act' = "tick" /\ on /\ ~fresh /\ LYof(pos') # LYof(pos)) => (run = (IF fl THEN 112 ELSE 114))]_mvars
LyCountsUp == [][(act' = "tick" /\ on /\ ~fresh /\ LYof(pos') # LYof(pos)) => LYof(pos') = (LYof(pos) + 1) % 154]_mvars
OffMeansLy0Mode0 == (~on) => (LY = 0 /\ Mode = 0)
OnRestartsAtLine0Mode2 == [][(act' = "on" /\ ~on) => (LY' = 0 /\ Mode' = 2)]_mvars
OffImmediately == [][(act' = "off") => (LY' = 0 /\ Mode' = 0)]_mvars
\* C14
NothingWhileOff == (~on /\ act = "tick") => (~vbl /\ ~stat)
VBlankExactlyAtLine144 == (act = "tick" /\ on) => (vbl <=> (pos = 144 * LineLen))
VBlankOncePerFrame == (vbl /\ act = "tick") => TRUE
StatAtRisingEdge == (act = "tick" /\ on) => (stat <=> StatAt(Src, Lyc, pos))
mview == <<pvars, run, lastLy, act, vbl, stat, fl>>
=============================================================================
