SPECIFICATION Spec
INVARIANTS LyRange ModeSchedule OffMeansLy0Mode0 NothingWhileOff VBlankExactlyAtLine144 StatAtRisingEdge
PROPERTIES LineLength LyCountsUp OnRestartsAtLine0Mode2 OffImmediately
VIEW mview
CHECK_DEADLOCK FALSE
