------------------------------ MODULE PPU_Trace ------------------------------
(* Leg B for C13 / C14: the real ppu.PPU ticked cycle by cycle.               *)
(* reset = [stat, lyc]: the STAT enable bits (0 or one of 8/16/32/64, or      *)
(* several: then STAT requests are not judged) and the constant LYC.          *)
(* events: [0, ly, mode, if]  one machine cycle, then LY, STAT mode and the   *)
(*                            IF bits 0-1 raised during it (IF cleared after) *)
(*         [1, ly, mode]      LCDC bit 7 written 1, then LY and mode          *)
(*         [2, ly, mode]      LCDC bit 7 written 0, then LY and mode          *)
(*         [3, ly, mode, a, v] another LCD register (FF00+a) written with v   *)
EXTENDS PPU, TLC, Json, IOUtils, Sequences

Scens == ndJsonDeserialize(IOEnv.TRACE)
Mode_ == IF "MODE" \in DOMAIN IOEnv THEN IOEnv.MODE ELSE "ALL"
Does(m) == Mode_ = m \/ Mode_ = "ALL"

VARIABLES sc, l
vars == <<pvars, sc, l>>
Stat == Scens[sc].reset[1]
Lyc == Scens[sc].reset[2]
Single == Stat \in {8, 16, 32, 64}
Ev == Scens[sc].ev[l]

Init == sc \in 1..Len(Scens) /\ l = 1 /\ PInit

Shows(e) == Does("C13") => (LY' = e[2] /\ Mode' = e[3])

TickEv(e) ==
   /\ Tick /\ Shows(e)
   /\ Does("C14") =>
        IF ~on THEN e[4] = 0                                                  \* nothing is requested while the LCD is off
        ELSE /\ (e[4] % 2 = 1) <=> VBlankAt(NextPos)                          \* VBlank exactly when line 144 begins
             /\ IF ~Single THEN (Stat = 0 => e[4] \div 2 = 0)                 \* several sources enabled: not judged
                ELSE IF Stat = 32 /\ (fresh \/ NextPos = 144 * LineLen) THEN TRUE   \* OAM source at switch-on / on line 144: unspecified
                ELSE ((e[4] \div 2) % 2 = 1) <=> StatAt(Stat, Lyc, NextPos)

Next == /\ l <= Len(Scens[sc].ev) /\ l' = l + 1 /\ UNCHANGED sc
        /\ LET e == Ev IN
           CASE e[1] = 0 -> TickEv(e)
             [] e[1] = 1 -> LcdOn /\ Shows(e)
             [] e[1] = 2 -> LcdOff /\ Shows(e)
             \* LY, scroll, palette, window registers written: nothing moves. What LY reads between the write and the end
             \* of that machine cycle is not judged (no program can read it there); the next tick event is.
             [] e[1] = 3 -> UNCHANGED pvars
             [] OTHER    -> FALSE            \* [9, what]: the PPU panicked

Spec == Init /\ [][Next]_vars
Done == (l = Len(Scens[sc].ev) + 1) => PrintT(<<"ACCEPT", Scens[sc].id>>)
Prog == PrintT(<<"AT", Scens[sc].id, l, on, pos, first, fresh>>)
=============================================================================
