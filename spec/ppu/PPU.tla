--------------------------------- MODULE PPU ---------------------------------
(* LCD line / mode timing (C13) and the interrupt requests of the LCD (C14). *)
(*                                                                           *)
(* State: on (LCDC bit 7), pos = position of the last executed machine cycle *)
(* in the 17,556-cycle frame, first (the line that started at switch-on is   *)
(* 2 cycles shorter, taken from its mode-0 part), fresh (switched on, no     *)
(* cycle executed yet). What a CPU reads: LY, STAT mode; what is requested   *)
(* in a cycle: VBlank (IF bit 0) and STAT (IF bit 1).                        *)
EXTENDS Integers

FrameLen == 17556
LineLen == 114
LYof(p) == p \div LineLen
LCof(p) == p % LineLen
ModeOf(p) == IF LYof(p) >= 144 THEN 1 ELSE IF LCof(p) < 20 THEN 2 ELSE IF LCof(p) < 61 THEN 3 ELSE 0

VARIABLES on, pos, first, fresh
pvars == <<on, pos, first, fresh>>

PInit == on = FALSE /\ pos = 0 /\ first = FALSE /\ fresh = FALSE

\* what the registers show
LY == IF on THEN LYof(pos) ELSE 0
Mode == IF ~on THEN 0 ELSE IF fresh THEN 2 ELSE ModeOf(pos)

\* the position reached by the next machine cycle
NextPos == IF fresh THEN 0
           ELSE IF first /\ LCof(pos) = 61 THEN pos + 3       \* first line: two cycles of mode 0 are skipped
           ELSE (pos + 1) % FrameLen

LcdOn == /\ on' = TRUE
         /\ IF on THEN UNCHANGED <<pos, first, fresh>>          \* on while on: nothing happens
            ELSE pos' = 0 /\ first' = TRUE /\ fresh' = TRUE    \* restart at line 0, mode 2
LcdOff == on' = FALSE /\ fresh' = FALSE /\ UNCHANGED <<pos, first>>

Tick == IF ~on THEN UNCHANGED pvars
        ELSE /\ pos' = NextPos
             /\ first' = (IF fresh THEN first ELSE IF first /\ LCof(pos) = 61 THEN FALSE ELSE first)
             /\ fresh' = FALSE /\ on' = on

\* ---- C14: requests raised by the cycle that lands on position p ----
VBlankAt(p) == p = 144 * LineLen
\* single STAT source (8 HBlank, 16 VBlank, 32 OAM, 64 LY=LYC with constant LYC)
StatAt(src, lyc, p) ==
   CASE src = 8  -> LYof(p) < 144 /\ LCof(p) = 61            \* entry to mode 0
     [] src = 16 -> p = 144 * LineLen                         \* start of line 144
     [] src = 32 -> LCof(p) = 0 /\ LYof(p) < 144              \* start of each line 0-143
     [] src = 64 -> LCof(p) = 0 /\ LYof(p) = lyc              \* start of the line where LY becomes LYC
     [] OTHER    -> FALSE
=============================================================================
