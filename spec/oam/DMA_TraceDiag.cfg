SPECIFICATION Spec
CONSTANTS N = 160 Bound = 162
INVARIANTS Prog
CHECK_DEADLOCK FALSE
