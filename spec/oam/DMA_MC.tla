-------------------------------- MODULE DMA_MC --------------------------------
(* Leg A for C16 on a scaled machine: 2 bytes, completion within 4 cycles,   *)
(* values 0..2 (+255); restarts and source writes at any cycle.              *)
EXTENDS DMA, TLC
VARIABLES depth, last, src
mvars == <<dvars, depth, last, src>>
V == {0, 1, 255}
Init == /\ running = FALSE /\ t = 0 /\ cand = [i \in 0..(N - 1) |-> V] /\ oam = [i \in 0..(N - 1) |-> V]
        /\ depth = 0 /\ last = <<"init">> /\ src \in [0..(N - 1) -> V]
Next == /\ depth < 9 /\ depth' = depth + 1
        /\ \/ Start(src) /\ last' = <<"start">> /\ UNCHANGED src
           \/ \E i \in 0..(N - 1), v \in V : SrcWrite(i, v) /\ src' = [src EXCEPT ![i] = v] /\ last' = <<"srcw">>
           \/ Tick /\ last' = <<"tick">> /\ UNCHANGED src
           \/ \E i \in 0..(N - 1), v \in V : Read(i, v) /\ last' = <<"read", i, v, running>> /\ UNCHANGED src
Spec == Init /\ [][Next]_mvars

BlockedWhileRunning == (last[1] = "read" /\ last[4]) => last[3] = 255
CompleteWithinBound == running => t < Bound
\* whatever OAM may hold after a completed transfer is something the source held during it
CopyIsSourceSnapshot == (~running /\ last[1] = "tick") => \A i \in 0..(N - 1) : oam[i] \subseteq cand[i]
RestartRestarts == (last[1] = "start") => (running /\ t = 0 /\ \A i \in 0..(N - 1) : cand[i] = {src[i]})
=============================================================================
