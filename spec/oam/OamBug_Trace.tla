----------------------------- MODULE OamBug_Trace -----------------------------
(* Leg B for C17: every machine cycle of the real CPU + PPU + OAM.            *)
(* event = [lcd(0/1), modeBefore, modeAfter, writes [[addr, v]..], delta      *)
(*          [[index, old, new]..], dmaActive(0/1)]                            *)
EXTENDS OamBug, TLC, Json, IOUtils, Sequences
Scens == ndJsonDeserialize(IOEnv.TRACE)
VARIABLES sc, l
vars == <<sc, l>>
Ev == Scens[sc].ev[l]
Init == sc \in 1..Len(Scens) /\ l = 1
Cycle(e) ==
   LET W == {<<e[4][k][1] - 65024, e[4][k][2]>> : k \in 1..Len(e[4])} IN
   \A k \in 1..Len(e[5]) : Explained(e[5][k][1], e[5][k][3], W, e[6] = 1, e[1] = 1, e[2], e[3])
Next == /\ l <= Len(Scens[sc].ev) /\ l' = l + 1 /\ UNCHANGED sc
        /\ IF Len(Ev) = 6 THEN Cycle(Ev) ELSE FALSE        \* anything else is a recorded panic
Spec == Init /\ [][Next]_vars
Done == (l = Len(Scens[sc].ev) + 1) => PrintT(<<"ACCEPT", Scens[sc].id>>)
Prog == PrintT(<<"AT", Scens[sc].id, l>>)
=============================================================================
