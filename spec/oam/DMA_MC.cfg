SPECIFICATION Spec
CONSTANTS N = 2 Bound = 4
INVARIANTS BlockedWhileRunning CompleteWithinBound CopyIsSourceSnapshot RestartRestarts
CHECK_DEADLOCK FALSE
