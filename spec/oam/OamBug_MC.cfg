SPECIFICATION BSpec
INVARIANTS ArmedOnlyInMode2WhileOn ArmedImpliesMayCorrupt
CHECK_DEADLOCK FALSE
