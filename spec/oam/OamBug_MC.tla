------------------------------- MODULE OamBug_MC -------------------------------
(* Leg A for C17: closed model of the arming condition. *)
EXTENDS OamBug
(* ----- closed model of the arming condition ----- *)
VARIABLES lcdOn, mode, lc, armed
bvars == <<lcdOn, mode, lc, armed>>
\* a shortened line: 6 cycles, mode 2 for cycles 0-1, mode 3 for 2-3, mode 0 for 4-5
LineLen == 6
ModeAt(c) == IF c < 2 THEN 2 ELSE IF c < 4 THEN 3 ELSE 0

BInit == lcdOn = FALSE /\ mode = 0 /\ lc = 0 /\ armed = FALSE
BTick == IF ~lcdOn THEN UNCHANGED bvars
         ELSE /\ lc' = (lc + 1) % LineLen
              /\ mode' = ModeAt(lc')
              /\ armed' = (ModeAt(lc') = 2)
              /\ UNCHANGED lcdOn
BOn == /\ lcdOn' = TRUE
       /\ IF lcdOn THEN UNCHANGED <<mode, lc, armed>> ELSE mode' = 2 /\ lc' = 0 /\ armed' = TRUE
BOff == lcdOn' = FALSE /\ mode' = 0 /\ lc' = 0 /\ armed' = FALSE        \* switching off disarms, whatever the mode
BNext == BTick \/ BOn \/ BOff
BSpec == BInit /\ [][BNext]_bvars

ArmedOnlyInMode2WhileOn == armed => (lcdOn /\ mode = 2)
ArmedImpliesMayCorrupt == armed => MayCorrupt(lcdOn, mode, mode)
=============================================================================
