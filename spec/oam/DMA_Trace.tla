------------------------------ MODULE DMA_Trace ------------------------------
(* Leg B for C16. events:                                                     *)
(*  ["dma", x, [160 source bytes as the bus returns them now]]  FF46 written  *)
(*  ["t", addr, v]   one machine cycle, then a CPU read of addr in FE00-FEFF  *)
(*  ["tk"]           one machine cycle, no access                             *)
(*  ["sw", i, v]     source byte i rewritten (v as the bus returns it)        *)
(*  ["w", addr, v]   CPU write to OAM                                         *)
(*  ["oam", [160 bytes]]  all of FE00-FE9F (side-effect-free snapshot) after   *)
(*                   the transfers are over                                   *)
EXTENDS DMA, TLC, Json, IOUtils, Sequences
Scens == ndJsonDeserialize(IOEnv.TRACE)
VARIABLES sc, l
vars == <<dvars, sc, l>>
Ev == Scens[sc].ev[l]
Init == sc \in 1..Len(Scens) /\ l = 1 /\ DInit

ReadAddr(addr, v) ==
   IF addr < 65184 THEN Read(addr - 65024, v)
   ELSE (IF running THEN v = 255 ELSE v = 0) /\ UNCHANGED dvars          \* FEA0-FEFF

\* one machine cycle followed by a CPU read of addr (the sequential composition of Tick and ReadAddr, written out)
TickRead(addr, v) ==
   \/ /\ running /\ t + 1 < Bound                                   \* still running afterwards: the read is blocked
      /\ t' = t + 1 /\ v = 255 /\ UNCHANGED <<running, cand, oam>>
   \/ /\ running                                                    \* the transfer completes in this cycle
      /\ running' = FALSE /\ t' = t + 1 /\ UNCHANGED cand
      /\ IF addr < 65184
         THEN v \in cand[addr - 65024] /\ oam' = [cand EXCEPT ![addr - 65024] = {v}]
         ELSE v = 0 /\ oam' = cand
   \/ /\ ~running /\ ReadAddr(addr, v)

ReadAll(bytes) ==
   /\ IF running THEN \A i \in 1..N : bytes[i] = 255 ELSE \A i \in 1..N : bytes[i] \in oam[i - 1]
   /\ oam' = IF running THEN oam ELSE [i \in 0..(N - 1) |-> {bytes[i + 1]}]
   /\ UNCHANGED <<running, t, cand>>

Next == /\ l <= Len(Scens[sc].ev) /\ l' = l + 1 /\ UNCHANGED sc
        /\ LET e == Ev IN
           CASE e[1] = "dma" -> Start([i \in 0..(N - 1) |-> e[3][i + 1]])
             [] e[1] = "t"   -> TickRead(e[2], e[3])
             [] e[1] = "tk"  -> Tick
             [] e[1] = "sw"  -> SrcWrite(e[2], e[3])
             [] e[1] = "w"   -> IF e[2] < 65184 THEN Write(e[2] - 65024, e[3]) ELSE UNCHANGED dvars
             [] e[1] = "oam" -> ReadAll(e[2])
             [] OTHER        -> FALSE
Spec == Init /\ [][Next]_vars
CompleteWithinBound == running => t < Bound
Done == (l = Len(Scens[sc].ev) + 1) => PrintT(<<"ACCEPT", Scens[sc].id>>)
Prog == PrintT(<<"AT", Scens[sc].id, l, running, t>>)
=============================================================================
