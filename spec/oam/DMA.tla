--------------------------------- MODULE DMA ---------------------------------
(* OAM DMA (property C16). Writing XX to FF46 starts (or restarts) a copy of *)
(* XX00-XX9F into OAM. The copy completes within Bound machine cycles; while *)
(* it runs, reads of FE00-FEFF return FF; afterwards OAM[i] is a value that  *)
(* source byte i held at some moment of the transfer.                        *)
(*                                                                           *)
(* State: running, t (cycles since the last start), cand[i] = the set of     *)
(* values source byte i has held since the last start, oam[i] = set of       *)
(* values OAM byte i may hold (a singleton once pinned by a read or a CPU    *)
(* write).                                                                   *)
EXTENDS Integers, FiniteSets

CONSTANTS N,      \* bytes copied (160 on the machine)
          Bound   \* cycles within which the transfer completes (162 on the machine)

VARIABLES running, t, cand, oam
dvars == <<running, t, cand, oam>>

Any == 0..255
DInit == running = FALSE /\ t = 0 /\ cand = [i \in 0..(N - 1) |-> Any] /\ oam = [i \in 0..(N - 1) |-> Any]

\* FF46 written: src[i] = what the bus returns for the i-th source byte right now
Start(src) == /\ running' = TRUE /\ t' = 0
              /\ cand' = [i \in 0..(N - 1) |-> {src[i]}]
              /\ UNCHANGED oam

\* the guest (or anything else) changes source byte i while the transfer may be running, t cycles after its start.
\* Byte i is copied around cycle i + 2 of the transfer ("each source byte as it was when copied"): a change that
\* comes clearly before that replaces what OAM will get, one that comes clearly after it is not seen any more; in a
\* window of one cycle either side both values are accepted.
SrcWrite(i, v) == /\ cand' = IF ~running THEN cand
                              ELSE IF t <= i THEN [cand EXCEPT ![i] = {v}]
                              ELSE IF t >= i + 4 THEN cand
                              ELSE [cand EXCEPT ![i] = @ \cup {v}]
                  /\ UNCHANGED <<running, t, oam>>

\* a machine cycle passes; the transfer may complete at any cycle up to Bound and must have by then
Tick == \/ /\ running /\ t + 1 < Bound
           /\ t' = t + 1 /\ UNCHANGED <<running, cand, oam>>
        \/ /\ running                         \* completion: OAM takes values the source held during the transfer
           /\ running' = FALSE /\ t' = t + 1
           /\ oam' = cand /\ UNCHANGED cand
        \/ /\ ~running /\ UNCHANGED dvars

\* a CPU read of OAM byte i (i < N) returning v
Read(i, v) ==
   IF running THEN v = 255 /\ UNCHANGED dvars
   ELSE /\ v \in oam[i]
        /\ oam' = [oam EXCEPT ![i] = {v}]
        /\ UNCHANGED <<running, t, cand>>

\* a CPU write to OAM byte i while no transfer runs
Write(i, v) == /\ oam' = IF running THEN oam ELSE [oam EXCEPT ![i] = {v}]
               /\ UNCHANGED <<running, t, cand>>
=============================================================================
