SPECIFICATION Spec
CONSTANTS N = 160 Bound = 162
INVARIANTS Done CompleteWithinBound
CHECK_DEADLOCK FALSE
