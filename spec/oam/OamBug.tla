-------------------------------- MODULE OamBug --------------------------------
(* Property C17: OAM contents change only through CPU writes to FE00-FE9F,   *)
(* DMA transfers, and the DMG OAM-corruption bug, which can occur only while *)
(* the LCD is on and the PPU is in mode 2.                                   *)
(*                                                                           *)
(* `armed` abstracts the condition under which the corruption may strike.    *)
(* The closed model below drives it from the LCD's line schedule and LCD     *)
(* on/off switches at arbitrary cycles; the trace specification judges every *)
(* recorded machine cycle with Explained.                                    *)
EXTENDS Integers, FiniteSets

\* may the bug strike in a cycle that begins in mode mb and ends in mode ma with the LCD state lcd?
\* The CPU acts first in a machine cycle and the PPU steps after it: what counts is the mode the cycle begins in.
\* (A cycle that only *ends* in mode 2 - the first cycle of a line, the last cycle of line 153 - is not exposed.)
MayCorrupt(lcd, mb, ma) == lcd /\ mb = 2

\* is a change of OAM byte i to value new explained by this cycle's activity?
\* writes: set of <<index, value>> CPU writes; dmaActive: an OAM DMA was running in this cycle
Explained(i, new, writes, dmaActive, lcd, mb, ma) ==
   \/ <<i, new>> \in writes
   \/ dmaActive
   \/ MayCorrupt(lcd, mb, ma)

=============================================================================
