-------------------------------- MODULE Crash --------------------------------
(* Property C11: loading any byte string either fails during construction   *)
(* or yields an emulator that keeps running under any guest activity; the    *)
(* only deliberate stop is executing one of the 11 undefined opcodes.        *)
(*                                                                           *)
(* The contribution of the specification is the vocabulary of *allowed*      *)
(* endings: a recorded panic or an unexplained process exit matches no       *)
(* action. Events:                                                           *)
(*   ["ctor", ok]            construction finished (ok = 1) or failed (0)    *)
(*   ["ops", n]              n guest operations / machine cycles survived    *)
(*   ["exit", code, opMsg, opPeeked]  the process exited with `code`; opMsg = *)
(*                           opcode named in the emulator's message (-1 if   *)
(*                           none), opPeeked = the opcode at PC when the     *)
(*                           last instruction was about to start (-1: none)  *)
(*   ["panic", what]         a panic escaped from the emulator               *)
EXTENDS Integers, Sequences, TLC, Json, IOUtils

Scens == ndJsonDeserialize(IOEnv.TRACE)
Undefined == {211, 219, 221, 227, 228, 235, 236, 237, 244, 252, 253}

VARIABLES sc, l, phase
vars == <<sc, l, phase>>
Ev == Scens[sc].ev[l]

Init == sc \in 1..Len(Scens) /\ l = 1 /\ phase = "fresh"

Construct(ok) == phase = "fresh" /\ phase' = (IF ok = 1 THEN "running" ELSE "failed")
Ops(n) == phase = "running" /\ n >= 0 /\ phase' = "running"
StopUndefined(code, opMsg, opPeeked) ==
   /\ phase = "running"
   /\ code = 1
   /\ opPeeked \in Undefined
   /\ opMsg \in {opPeeked, 0 - 1}
   /\ phase' = "stopped"

Next == /\ l <= Len(Scens[sc].ev) /\ l' = l + 1 /\ UNCHANGED sc
        /\ LET e == Ev IN
           CASE e[1] = "ctor" -> Construct(e[2])
             [] e[1] = "ops"  -> Ops(e[2])
             [] e[1] = "exit" -> StopUndefined(e[2], e[3], e[4])
             [] OTHER         -> FALSE

Spec == Init /\ [][Next]_vars
\* nothing happens after a failed construction or a stop
EndsAreFinal == (phase \in {"failed", "stopped"}) => l = Len(Scens[sc].ev) + 1
Done == (l = Len(Scens[sc].ev) + 1) => PrintT(<<"ACCEPT", Scens[sc].id>>)
Prog == PrintT(<<"AT", Scens[sc].id, l, phase>>)
=============================================================================
