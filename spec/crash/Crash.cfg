SPECIFICATION Spec
INVARIANTS Done EndsAreFinal
CHECK_DEADLOCK FALSE
