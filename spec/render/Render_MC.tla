------------------------------- MODULE Render_MC -------------------------------
(* Leg A for C15: micro-scenes. Tiles: 0 blank, 1 solid colour 1, 2 solid     *)
(* colour 2, 3 solid colour 3, 4 a diagonal of colour 3 on colour 0. The BG    *)
(* map is tile 1 everywhere except a column of tile 0, the window map tile 2.  *)
(* One object, parameterised by position, attributes and tile. The invariants *)
(* relate Pixel to what the statement says in words.                           *)
EXTENDS Render, TLC, IOUtils

Big == "LATTICE" \in DOMAIN IOEnv /\ IOEnv.LATTICE = "big"

VARIABLES p   \* scene parameters
Tiles == [i \in 1..8192 |->
            LET idx == i - 1 IN
            IF idx < 6144
            THEN LET tile == idx \div 16  row == (idx % 16) \div 2  second == idx % 2 = 1 IN
                 CASE tile = 1 -> IF second THEN 0 ELSE 255
                   [] tile = 2 -> IF second THEN 255 ELSE 0
                   [] tile = 3 -> 255
                   [] tile = 4 -> 2^(7 - row)
                   [] OTHER -> 0
            ELSE IF idx < 7168 THEN (IF (idx - 6144) % 32 = 5 THEN 0 ELSE 1)      \* map 9800: tile 1, column 5 blank
            ELSE 2]                                                               \* map 9C00: tile 2

Scene == [vram |-> Tiles,
          oam |-> [k \in 1..160 |-> IF k = 1 THEN p.oy ELSE IF k = 2 THEN p.ox ELSE IF k = 3 THEN p.tile ELSE IF k = 4 THEN p.attr ELSE 0],
          regs |-> <<p.lcdc, p.scx, p.scy, p.wx, p.wy, 228, 228, 27>>]      \* BGP = OBP0 = identity, OBP1 = reversed

Init == IF Big
        THEN p \in [oy : {0, 9, 16, 80, 150, 159}, ox : {0, 3, 8, 100, 164, 167}, tile : {3, 4}, attr : {0, 16, 32, 64, 128, 144},
                    lcdc : {145, 147, 179, 251}, scx : {0, 3}, scy : {0, 250}, wx : {7, 90, 166}, wy : {0, 100}]
        ELSE p \in [oy : {0, 9, 80, 150, 159}, ox : {0, 3, 100, 164}, tile : {3, 4}, attr : {0, 16, 96, 144},
                    lcdc : {145, 147, 179}, scx : {3}, scy : {250}, wx : {7, 90}, wy : {100}]
Next == UNCHANGED p
Spec == Init /\ [][Next]_p

Xs == {0, 1, 7, 8, 40, 47, 92, 99, 100, 155, 159}
Ys == {0, 1, 7, 63, 64, 71, 72, 100, 134, 141, 142, 143}
ObjOn == Bit(p.lcdc, 1) = 1
WinOn == Bit(p.lcdc, 5) = 1

ShadeInRange == \A x \in Xs, y \in Ys : Pixel(Scene, x, y) \in 0..3
\* without objects and window the frame is the scrolled background
NoObjectsNoWindowIsBackground ==
   (~ObjOn /\ ~WinOn) => \A x \in Xs, y \in Ys : Pixel(Scene, x, y) = Shade(228, BgPix(Scene, x, y))
\* an opaque pixel of a front object wins, through its palette
OpaqueFrontObjectWins ==
   (ObjOn /\ Bit(p.attr, 7) = 0) => \A x \in Xs, y \in Ys :
       LET c == ObjCol(Scene, 0, x, y) IN
       c # 0 => Pixel(Scene, x, y) = Shade(IF Bit(p.attr, 4) = 1 THEN 27 ELSE 228, c)
\* an object with background priority shows only over colour 0
BehindObjectOnlyOverColour0 ==
   (ObjOn /\ Bit(p.attr, 7) = 1) => \A x \in Xs, y \in Ys :
       LET c == ObjCol(Scene, 0, x, y)
           bgc == IF WinVisible(Scene, x, y) THEN WinPix(Scene, x, y) ELSE BgPix(Scene, x, y) IN
       c # 0 => Pixel(Scene, x, y) = (IF bgc # 0 THEN Shade(228, bgc) ELSE Shade(IF Bit(p.attr, 4) = 1 THEN 27 ELSE 228, c))
\* an object partly outside an edge still contributes its visible rows / columns
ClippedNotHidden ==
   /\ (p.tile = 3 /\ p.oy = 9 /\ p.ox = 100) => ObjCol(Scene, 0, 95, 0) = 3
   /\ (p.tile = 3 /\ p.oy = 150 /\ p.ox = 3) => ObjCol(Scene, 0, 0, 140) = 3
   /\ (p.tile = 3 /\ p.oy = 159 /\ p.ox = 164) => ObjCol(Scene, 0, 159, 143) = 3
   /\ (p.oy = 0 \/ p.ox = 0) => \A x \in Xs, y \in Ys : ObjCol(Scene, 0, x, y) = 0
\* the window covers the background from (WX-7, WY) on
WindowOverBackground ==
   WinOn => \A x \in Xs, y \in Ys : WinVisible(Scene, x, y) <=> (x + 7 >= p.wx /\ y >= p.wy)
=============================================================================
