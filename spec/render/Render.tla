-------------------------------- MODULE Render --------------------------------
(* The DMG composition of one pixel from VRAM, OAM and the video registers    *)
(* (property C15), for a scene that is constant over the frame, LCD and        *)
(* background enabled, 8x8 objects, at most 10 objects per line, objects       *)
(* ordered by X in OAM, window at WX 7..166.                                   *)
(*                                                                             *)
(* A scene S is a record [vram: 8192 bytes (index 1 = 8000h), oam: 160 bytes,  *)
(* regs: <<LCDC, SCX, SCY, WX, WY, BGP, OBP0, OBP1>>].                          *)
EXTENDS Integers, Sequences, FiniteSets

Bit(v, i) == (v \div (2^i)) % 2
LCDC(S) == S.regs[1]
SCX(S) == S.regs[2]
SCY(S) == S.regs[3]
WX(S) == S.regs[4]
WY(S) == S.regs[5]
BGP(S) == S.regs[6]
OBP0(S) == S.regs[7]
OBP1(S) == S.regs[8]

\* colour id of pixel (px, py) of tile `tile` (0..383): bit of the second byte * 2 + bit of the first byte
TilePix(S, tile, px, py) ==
   LET lo == S.vram[tile * 16 + py * 2 + 1]
       hi == S.vram[tile * 16 + py * 2 + 2]
   IN 2 * Bit(hi, 7 - px) + Bit(lo, 7 - px)

\* tile number for a map byte: LCDC bit 4 selects 8000h addressing, else 8800h signed addressing
BgTile(S, byte) == IF Bit(LCDC(S), 4) = 1 THEN byte ELSE IF byte < 128 THEN 256 + byte ELSE byte
MapByte(S, hi, tx, ty) == S.vram[(IF hi THEN 7168 ELSE 6144) + ty * 32 + tx + 1]

BgPix(S, x, y) ==
   LET sx == (x + SCX(S)) % 256  sy == (y + SCY(S)) % 256 IN
   TilePix(S, BgTile(S, MapByte(S, Bit(LCDC(S), 3) = 1, sx \div 8, sy \div 8)), sx % 8, sy % 8)

WinVisible(S, x, y) == Bit(LCDC(S), 5) = 1 /\ WX(S) <= 166 /\ WY(S) <= 143 /\ x + 7 >= WX(S) /\ y >= WY(S)
WinPix(S, x, y) ==
   LET wx == x + 7 - WX(S)  wy == y - WY(S) IN
   TilePix(S, BgTile(S, MapByte(S, Bit(LCDC(S), 6) = 1, wx \div 8, wy \div 8)), wx % 8, wy % 8)

\* colour id of object i (0..39) at screen pixel (x, y), 0 if it does not cover the pixel.
\* An object at (oy, ox) covers screen rows oy-16 .. oy-9 and columns ox-8 .. ox-1: parts outside the screen are clipped.
ObjCol(S, i, x, y) ==
   LET oy == S.oam[4 * i + 1]  ox == S.oam[4 * i + 2]  t == S.oam[4 * i + 3]  a == S.oam[4 * i + 4] IN
   IF x + 8 >= ox /\ x < ox /\ y + 16 >= oy /\ y + 8 < oy
   THEN LET px0 == x + 8 - ox  py0 == y + 16 - oy
            px == IF Bit(a, 5) = 1 THEN 7 - px0 ELSE px0
            py == IF Bit(a, 6) = 1 THEN 7 - py0 ELSE py0
        IN TilePix(S, t, px, py)
   ELSE 0

Hits(S, x, y) == {i \in 0..39 : ObjCol(S, i, x, y) # 0}
Shade(pal, c) == (pal \div (4^c)) % 4

\* the shade (0 lightest .. 3 darkest) of screen pixel (x, y)
Pixel(S, x, y) ==
   LET bgc == IF WinVisible(S, x, y) THEN WinPix(S, x, y) ELSE BgPix(S, x, y)
       H == IF Bit(LCDC(S), 1) = 1 THEN Hits(S, x, y) ELSE {}
   IN IF H = {} THEN Shade(BGP(S), bgc)
      ELSE LET i == CHOOSE i \in H : \A j \in H : i <= j          \* first opaque object pixel in OAM order
               a == S.oam[4 * i + 4]
           IN IF Bit(a, 7) = 1 /\ bgc # 0 THEN Shade(BGP(S), bgc)  \* behind the background unless it is colour 0
              ELSE Shade(IF Bit(a, 4) = 1 THEN OBP1(S) ELSE OBP0(S), ObjCol(S, i, x, y))
=============================================================================
