SPECIFICATION Spec
INVARIANTS ShadeInRange NoObjectsNoWindowIsBackground OpaqueFrontObjectWins BehindObjectOnlyOverColour0 ClippedNotHidden WindowOverBackground
CHECK_DEADLOCK FALSE
