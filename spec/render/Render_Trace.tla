----------------------------- MODULE Render_Trace -----------------------------
(* Leg B for C15. reset = {vram, oam, regs: as read back before the frame,    *)
(* shades: the four RGBA colours the renderer produces for shade 0..3          *)
(* (calibrated on the same build with a blank tile and BGP = 0..3)};           *)
(* events [x, y, r, g, b, a]: pixels of the emitted frame.                     *)
EXTENDS Render, TLC, Json, IOUtils
Scens == ndJsonDeserialize(IOEnv.TRACE)
VARIABLES sc, l
vars == <<sc, l>>
S == Scens[sc].reset
Sh == Scens[sc].reset.shades
\* four distinct opaque greys of decreasing brightness
ShadesOK == /\ \A k \in 1..4 : Sh[k][1] = Sh[k][2] /\ Sh[k][2] = Sh[k][3] /\ Sh[k][4] = 255
            /\ \A k \in 1..3 : Sh[k][1] > Sh[k + 1][1]
Init == sc \in 1..Len(Scens) /\ l = 1 /\ ShadesOK
Next == /\ l <= Len(Scens[sc].ev) /\ l' = l + 1 /\ UNCHANGED sc
        /\ LET e == Scens[sc].ev[l] IN
           /\ Len(e) = 6
           /\ <<e[3], e[4], e[5], e[6]>> = Sh[Pixel(S, e[1], e[2]) + 1]
Spec == Init /\ [][Next]_vars
Done == (l = Len(Scens[sc].ev) + 1) => PrintT(<<"ACCEPT", Scens[sc].id>>)
Prog == PrintT(<<"AT", Scens[sc].id, l>>)
=============================================================================
