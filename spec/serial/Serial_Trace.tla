----------------------------- MODULE Serial_Trace -----------------------------
(* reset = [hasWriter(0/1)]; events ["w", addr, v] every bus write the guest  *)
(* made, ["r", addr, v] reads of FF01/FF02, ["out", [bytes]] what the writer  *)
(* has received so far (logged at the end and at random points).              *)
EXTENDS Serial, TLC, Json, IOUtils
Scens == ndJsonDeserialize(IOEnv.TRACE)
VARIABLES sc, l
vars == <<svars, sc, l>>
Ev == Scens[sc].ev[l]
Init == sc \in 1..Len(Scens) /\ l = 1 /\ SInit(Scens[sc].reset[1] = 1)
Next == /\ l <= Len(Scens[sc].ev) /\ l' = l + 1 /\ UNCHANGED sc
        /\ LET e == Ev IN
           CASE e[1] = "w"   -> IF e[2] = 65281 THEN WSB(e[3]) ELSE WOther
             [] e[1] = "r"   -> (e[2] \in {65281, 65282} => e[3] = ReadVal(e[2])) /\ UNCHANGED svars
             [] e[1] = "out" -> e[2] = out /\ UNCHANGED svars
             \* the harness emptied its writer's buffer (long runs are compared piece by piece)
             [] e[1] = "cut" -> out' = <<>> /\ sbw' = <<>> /\ UNCHANGED hasWriter
             [] OTHER        -> FALSE
Spec == Init /\ [][Next]_vars
Done == (l = Len(Scens[sc].ev) + 1) => PrintT(<<"ACCEPT", Scens[sc].id>>)
Prog == PrintT(<<"AT", Scens[sc].id, l, Len(out), Len(sbw)>>)
=============================================================================
