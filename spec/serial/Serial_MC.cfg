SPECIFICATION Spec
INVARIANTS DeliveredIsExactlyTheWrites
PROPERTIES AppendOnly
CHECK_DEADLOCK FALSE
