SPECIFICATION Spec
INVARIANTS Done DeliveredIsExactlyTheWrites
CHECK_DEADLOCK FALSE
