-------------------------------- MODULE Serial --------------------------------
(* Property C23: every byte written to SB (FF01) is delivered to the          *)
(* configured writer exactly once and in order; nothing else is delivered;    *)
(* without a writer SB writes have no effect; SB and SC read FF.              *)
EXTENDS Integers, Sequences

VARIABLES out, hasWriter, sbw
\* out: bytes delivered so far; sbw: the SB writes so far (history, to state the property)
svars == <<out, hasWriter, sbw>>

SInit(w) == out = <<>> /\ hasWriter = w /\ sbw = <<>>

WSB(v) == /\ out' = IF hasWriter THEN Append(out, v) ELSE out
          /\ sbw' = Append(sbw, v) /\ UNCHANGED hasWriter
\* any other bus write (SC included) delivers nothing
WOther == UNCHANGED svars
ReadVal(addr) == 255        \* SB and SC

DeliveredIsExactlyTheWrites == out = (IF hasWriter THEN sbw ELSE <<>>)
=============================================================================
