------------------------------ MODULE Serial_MC ------------------------------
EXTENDS Serial, TLC
VARIABLE depth
mvars == <<svars, depth>>
Init == (\E w \in BOOLEAN : SInit(w)) /\ depth = 0
Next == /\ depth < 6 /\ depth' = depth + 1
        /\ \/ \E v \in {0, 10, 255} : WSB(v)
           \/ WOther
Spec == Init /\ [][Next]_mvars
AppendOnly == [][Len(out') >= Len(out) /\ SubSeq(out', 1, Len(out)) = out]_mvars
=============================================================================
