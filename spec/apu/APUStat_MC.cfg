SPECIFICATION Spec
CONSTANTS Period = 2 LenA = 4 LenW = 6
INVARIANTS LenInRange OnImpliesDacAndPower OnWithLengthMeansPositive
PROPERTIES OnOnlyByTriggerWithDac OffByDacPowerOrExpiry
CHECK_DEADLOCK FALSE
