-------------------------------- MODULE APUStat --------------------------------
(* Channel status bits (NR52 low nibble), length counters, the frame sequencer  *)
(* and channel 1's sweep unit (property C19), as functions on a state record.   *)
(*   power, step (frame sequencer step 0..7; steps happen every Period machine  *)
(*   cycles), freq (channel 1 frequency), ch[1..4] = [on, dac, len, lenEn],     *)
(*   sw = sweep unit [period, neg, shift, timer, enabled, shadow, negUsed]      *)
EXTENDS Integers, Sequences

CONSTANTS Period,   \* machine cycles between frame sequencer steps (2048 on the machine)
          LenA,     \* length counter range of channels 1, 2, 4 (64)
          LenW      \* length counter range of channel 3 (256)

Bit(v, i) == (v \div (2^i)) % 2
MaxLen(c) == IF c = 3 THEN LenW ELSE LenA
Ch0 == [on |-> FALSE, dac |-> FALSE, len |-> 0, lenEn |-> FALSE]
Sw0 == [period |-> 0, neg |-> FALSE, shift |-> 0, timer |-> 0, enabled |-> FALSE, shadow |-> 0, negUsed |-> FALSE]
St0 == [power |-> TRUE, step |-> 0, freq |-> 0, ch |-> [c \in 1..4 |-> Ch0], sw |-> Sw0]

Status(s) == (IF s.ch[1].on THEN 1 ELSE 0) + (IF s.ch[2].on THEN 2 ELSE 0)
           + (IF s.ch[3].on THEN 4 ELSE 0) + (IF s.ch[4].on THEN 8 ELSE 0)
NR52Val(s) == 112 + (IF s.power THEN 128 ELSE 0) + Status(s)

\* "first half of a length period": the next sequencer step does not clock the length counters
FirstHalf(s) == s.step % 2 = 1

SweepCalc(s) ==
  LET d == s.sw.shadow \div (2^(s.sw.shift))
      f == IF s.sw.neg THEN s.sw.shadow - d ELSE s.sw.shadow + d
  IN [f |-> f, ovf |-> f > 2047, negUsed |-> s.sw.negUsed \/ s.sw.neg]

ClockLen(s) ==
  [s EXCEPT !.ch = [c \in 1..4 |->
      IF s.ch[c].lenEn /\ s.ch[c].len > 0
      THEN [s.ch[c] EXCEPT !.len = @ - 1, !.on = IF s.ch[c].len = 1 THEN FALSE ELSE @]
      ELSE s.ch[c]]]

ClockSweep(s) ==
  IF ~s.sw.enabled THEN s
  ELSE IF s.sw.timer - 1 # 0 THEN [s EXCEPT !.sw.timer = @ - 1]
  ELSE LET reload == IF s.sw.period = 0 THEN 8 ELSE s.sw.period
           s1 == [s EXCEPT !.sw.timer = reload]
       IN IF s.sw.period = 0 THEN s1
          ELSE LET c1 == SweepCalc(s1)
                   s2 == [s1 EXCEPT !.sw.negUsed = c1.negUsed, !.ch[1].on = IF c1.ovf THEN FALSE ELSE @]
               IN IF ~c1.ovf /\ s.sw.shift > 0
                  THEN LET s3 == [s2 EXCEPT !.freq = c1.f, !.sw.shadow = c1.f]
                           c2 == SweepCalc(s3)
                       IN [s3 EXCEPT !.sw.negUsed = c2.negUsed, !.ch[1].on = IF c2.ovf THEN FALSE ELSE @]
                  ELSE s2

\* one frame sequencer step: length on even steps, sweep on steps 2 and 6
SeqStep(s) ==
  LET a == IF s.step % 2 = 0 THEN ClockLen(s) ELSE s
      b == IF s.step % 4 = 2 THEN ClockSweep(a) ELSE a
  IN [b EXCEPT !.step = (s.step + 1) % 8]
StepOf(s) == IF s.power THEN SeqStep(s) ELSE [s EXCEPT !.step = (s.step + 1) % 8]

Trigger(s, c, lenEnNew) ==
  LET reload == s.ch[c].len = 0
      len1 == IF reload THEN MaxLen(c) ELSE s.ch[c].len
      len2 == IF reload /\ lenEnNew /\ FirstHalf(s) THEN len1 - 1 ELSE len1
      s1 == [s EXCEPT !.ch[c].on = TRUE, !.ch[c].len = len2]
      s2 == IF c # 1 THEN s1
            ELSE LET sw1 == [s1.sw EXCEPT !.shadow = s1.freq,
                                          !.timer = IF s1.sw.period = 0 THEN 8 ELSE s1.sw.period,
                                          !.enabled = (s1.sw.period > 0 \/ s1.sw.shift > 0),
                                          !.negUsed = FALSE]
                     s1b == [s1 EXCEPT !.sw = sw1]
                 IN IF sw1.shift > 0
                    THEN LET cc == SweepCalc(s1b) IN
                         [s1b EXCEPT !.sw.negUsed = cc.negUsed, !.ch[1].on = IF cc.ovf THEN FALSE ELSE @]
                    ELSE s1b
  IN IF ~s2.ch[c].dac THEN [s2 EXCEPT !.ch[c].on = FALSE] ELSE s2

WriteNRx4(s, c, v) ==
  LET trig == Bit(v, 7) = 1
      le == Bit(v, 6) = 1
      sF == IF c = 1 THEN [s EXCEPT !.freq = (s.freq % 256) + 256 * (v % 8)] ELSE s
      extra == ~s.ch[c].lenEn /\ le /\ s.ch[c].len > 0 /\ FirstHalf(s)
      s1 == IF extra
            THEN [sF EXCEPT !.ch[c].len = @ - 1,
                            !.ch[c].on = IF s.ch[c].len = 1 /\ ~trig THEN FALSE ELSE @]
            ELSE sF
      s2 == IF trig THEN Trigger(s1, c, le) ELSE s1
  IN [s2 EXCEPT !.ch[c].lenEn = le]

PowerOff(s) ==
  [s EXCEPT !.power = FALSE, !.freq = 0, !.sw = Sw0,
            !.ch = [c \in 1..4 |-> [on |-> FALSE, dac |-> FALSE, len |-> s.ch[c].len, lenEn |-> FALSE]]]

\* a register write (addresses as on the bus)
Write(s, addr, v) ==
  LET lenW(c) == [s EXCEPT !.ch[c].len = MaxLen(c) - (IF c = 3 THEN v % LenW ELSE v % LenA)]
      dacW(c) == LET d == (v \div 8) # 0 IN
                 [s EXCEPT !.ch[c].dac = d, !.ch[c].on = IF d THEN @ ELSE FALSE]
  IN
  IF addr = 65318
  THEN IF Bit(v, 7) = 0 THEN PowerOff(s)
       ELSE IF s.power THEN s ELSE [s EXCEPT !.power = TRUE, !.step = 0]
  ELSE IF addr \in {65297, 65302, 65307, 65312}      \* NRx1: the length part is writable even while off
  THEN lenW(CASE addr = 65297 -> 1 [] addr = 65302 -> 2 [] addr = 65307 -> 3 [] addr = 65312 -> 4)
  ELSE IF ~s.power THEN s
  ELSE CASE addr = 65298 -> dacW(1) [] addr = 65303 -> dacW(2) [] addr = 65313 -> dacW(4)
         [] addr = 65306 -> LET d == Bit(v, 7) = 1 IN [s EXCEPT !.ch[3].dac = d, !.ch[3].on = IF d THEN @ ELSE FALSE]
         [] addr = 65300 -> WriteNRx4(s, 1, v) [] addr = 65305 -> WriteNRx4(s, 2, v)
         [] addr = 65310 -> WriteNRx4(s, 3, v) [] addr = 65315 -> WriteNRx4(s, 4, v)
         [] addr = 65299 -> [s EXCEPT !.freq = (s.freq \div 256) * 256 + v]
         [] addr = 65296 -> LET neg == Bit(v, 3) = 1 IN
                            [s EXCEPT !.sw.period = (v \div 16) % 8, !.sw.neg = neg, !.sw.shift = v % 8,
                                      !.sw.negUsed = FALSE,
                                      !.ch[1].on = IF s.sw.negUsed /\ ~neg THEN FALSE ELSE @]
         [] OTHER -> s

\* advance k machine cycles from absolute cycle c0 (sequencer steps when (cycle + phase) is a multiple of Period);
\* ok = the status never changed before the final cycle of the run
RECURSIVE Adv(_, _, _, _, _)
Adv(s, c0, k, phase, okSoFar) ==
  LET nextStep == (((c0 + phase) \div Period) + 1) * Period - phase
  IN IF nextStep > c0 + k THEN [s |-> s, ok |-> okSoFar]
     ELSE LET s2 == StepOf(s)
              changed == Status(s2) # Status(s)
              ok2 == okSoFar /\ (~changed \/ nextStep = c0 + k)
          IN Adv(s2, nextStep, c0 + k - nextStep, phase, ok2)
=============================================================================
