----------------------------- MODULE APUEnv_Trace -----------------------------
(* Binding of APUEnv to the real audio unit. One scenario = one channel      *)
(* (reset = ["env", channel, seed, cycles]) after a power cycle:             *)
(*   ["trig", cycle, nrx2]   NRx2 written and the channel triggered          *)
(*   ["v", cycle, vol]       the channel's volume changed in that cycle      *)
(*   ["end", cycle]          end of the observation                          *)
(* The phase of the 64 Hz envelope clock relative to the machine's cycle     *)
(* count is not logged: TLC infers it from the first observed step and every *)
(* later step must fall on the same phase.                                   *)
EXTENDS APUEnv, TLC, Json, IOUtils, Sequences
Scens == ndJsonDeserialize(IOEnv.TRACE)
VARIABLES sc, l, vol, per, up, tTrig, steps, last, phi
vars == <<sc, l, vol, per, up, tTrig, steps, last, phi>>
Ev == Scens[sc].ev[l]

Init == /\ sc \in 1..Len(Scens) /\ l = 1
        /\ vol = 0 /\ per = 0 /\ up = FALSE /\ tTrig = 0 - 1 /\ steps = 0 /\ last = 0 /\ phi = 0 - 1

\* by cycle c every step that was due has been observed
NothingMissed(c) ==
   \/ tTrig < 0 \/ per = 0 \/ Saturated(vol, up)
   \/ IF steps = 0
      THEN IF phi >= 0 THEN Clocks(tTrig, c, phi) <= per            \* the (per+1)-th clock has not come yet
           ELSE c - tTrig < (per + 1) * EnvPeriod                   \* phase unknown: not even in the worst case
      ELSE c - last < per * EnvPeriod

Trig(c, x) ==
   /\ NothingMissed(c)
   /\ vol' = Vol0(x) /\ per' = Per(x) /\ up' = Up(x) /\ tTrig' = c /\ steps' = 0 /\ last' = c
   /\ UNCHANGED phi

Step(c, v) ==
   /\ tTrig >= 0 /\ per # 0 /\ ~Saturated(vol, up)
   /\ v = StepOf(vol, up)
   /\ phi' = (IF phi < 0 THEN c % EnvPeriod ELSE phi) /\ c % EnvPeriod = phi'
   /\ IF steps = 0 THEN Clocks(tTrig, c, phi') \in FirstStepClocks(per)
      ELSE c - last = per * EnvPeriod
   /\ vol' = v /\ steps' = steps + 1 /\ last' = c
   /\ UNCHANGED <<per, up, tTrig>>

Next == /\ l <= Len(Scens[sc].ev) /\ l' = l + 1 /\ UNCHANGED sc
        /\ LET e == Ev IN
           CASE e[1] = "trig" -> Trig(e[2], e[3])
             [] e[1] = "v"    -> Step(e[2], e[3])
             [] e[1] = "end"  -> NothingMissed(e[2]) /\ UNCHANGED <<vol, per, up, tTrig, steps, last, phi>>
             [] OTHER         -> FALSE
Spec == Init /\ [][Next]_vars
Done == (l = Len(Scens[sc].ev) + 1) => PrintT(<<"ACCEPT", Scens[sc].id>>)
Prog == PrintT(<<"AT", Scens[sc].id, l, vol, per, up, tTrig, steps, last, phi>>)
=============================================================================
