------------------------------ MODULE APUSamp_MC ------------------------------
(* Leg A for C20 on a scaled sampler (period 5 clocks, 4 clocks per cycle):    *)
(* a divider that wraps every Period clocks while powered and attached; the    *)
(* mixing operator. Checked: exactly one pair per wrap, none while off or      *)
(* detached, silence of unrouted sides, independence from unrouted channels.   *)
EXTENDS Integers, Bitwise, TLC
Period == 5
VARIABLES clk, div, power, attached, emitted, lastEmit
mvars == <<clk, div, power, attached, emitted, lastEmit>>
Init == clk = 0 /\ div \in 0..(Period - 1) /\ power \in BOOLEAN /\ attached \in BOOLEAN /\ emitted = 0 /\ lastEmit = 0 - 1
Clock == /\ clk < 40 /\ clk' = clk + 1
         /\ div' = (div + 1) % Period
         /\ IF div' = 0 /\ power /\ attached
            THEN emitted' = emitted + 1 /\ lastEmit' = clk'
            ELSE UNCHANGED <<emitted, lastEmit>>
         /\ UNCHANGED <<power, attached>>
Toggle == /\ clk < 40 /\ power' = ~power /\ UNCHANGED <<clk, div, attached, emitted, lastEmit>>
Next == Clock \/ Toggle
Spec == Init /\ [][Next]_mvars
\* one pair per wrap: consecutive emissions are exactly Period clocks apart while continuously on
GapIsPeriodOrLonger == [][(emitted' = emitted + 1 /\ lastEmit >= 0) => (clk' - lastEmit) % Period = 0]_mvars
NoneWhenOffOrDetached == [][(emitted' # emitted) => (power /\ attached)]_mvars
\* the mixer: a side is the sum of the routed channels, so it is 0 when nothing is routed and does not mention the others
Mix(route, out) == (IF route[1] THEN out[1] ELSE 0) + (IF route[2] THEN out[2] ELSE 0) + (IF route[3] THEN out[3] ELSE 0) + (IF route[4] THEN out[4] ELSE 0)
Outs == [1..4 -> {0, 15}]
Routes == [1..4 -> BOOLEAN]
ASSUME UnroutedSilent == \A o \in Outs : Mix([i \in 1..4 |-> FALSE], o) = 0
ASSUME UnroutedIrrelevant == \A r \in Routes, o1 \in Outs, o2 \in Outs :
          (\A i \in 1..4 : r[i] => o1[i] = o2[i]) => Mix(r, o1) = Mix(r, o2)
=============================================================================
