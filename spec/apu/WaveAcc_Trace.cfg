SPECIFICATION Spec
INVARIANTS Done
CHECK_DEADLOCK FALSE
