SPECIFICATION Spec
CONSTANTS Period = 2048 LenA = 64 LenW = 256
INVARIANTS Done
CHECK_DEADLOCK FALSE
