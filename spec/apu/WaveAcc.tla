------------------------------- MODULE WaveAcc -------------------------------
(* Beyond the listed properties (check X02): CPU access to wave RAM while     *)
(* channel 3 plays. On a DMG the sixteen bytes FF30-FF3F are then the         *)
(* channel's: whatever address the CPU uses, it reaches the byte the channel  *)
(* is playing (position \div 2) - and only if the access falls within a       *)
(* couple of clocks of the channel's own fetch; at any other time a read      *)
(* returns FF and a write is lost. While the channel is off the bytes are     *)
(* plain memory.                                                              *)
(*                                                                            *)
(* cand[i] is the set of values byte i may hold (a write that falls close to  *)
(* a fetch may or may not land: "a couple of clocks" is not a number).        *)
(* fresh = the channel fetched during the machine cycle before the access.    *)
EXTENDS Integers

Blocked == 255

\* a read while the channel plays: nothing but FF unless the channel has just fetched; then FF or the byte being played
ReadOK(cand, pos, fresh, v) == v = Blocked \/ (fresh /\ v \in cand[pos \div 2])
\* what the read teaches: a value other than FF is the byte being played
AfterRead(cand, pos, fresh, v) == IF v # Blocked THEN [cand EXCEPT ![pos \div 2] = {v}] ELSE cand
\* a write while the channel plays: lost unless the channel has just fetched; then it may land - in the byte being played
AfterWrite(cand, pos, fresh, v) == IF fresh THEN [cand EXCEPT ![pos \div 2] = @ \cup {v}] ELSE cand

\* while the channel is off
PlainReadOK(cand, a, v) == v \in cand[a]
PlainWrite(cand, a, v) == [cand EXCEPT ![a] = {v}]

\* When the channel's period is a whole number of machine cycles (even frequency value), every fetch falls on the same
\* clock of the machine cycle, so accesses right after a fetch either all work or are all blocked ("mode").
Aligned(f) == f % 2 = 0
=============================================================================
