-------------------------------- MODULE APUGen --------------------------------
(* Waveform generators (property C21): the square channels step an 8-step    *)
(* duty waveform every 4*(2048-f) clocks, the wave channel steps its 32       *)
(* samples every 2*(2048-f) clocks, the noise channel clocks a 15-bit LFSR    *)
(* every d(r)*2^s clocks; a machine cycle is 4 clocks.                        *)
EXTENDS Integers, Bitwise

Period(kind, f) == CASE kind = "sq" -> 4 * (2048 - f) [] kind = "wave" -> 2 * (2048 - f)
Divisor(r) == IF r = 0 THEN 8 ELSE 16 * r
NoisePeriod(r, s) == Divisor(r) * (2^s)
Modulus(kind) == CASE kind = "sq" -> 8 [] kind = "wave" -> 32

\* number of generator steps that have happened by the end of machine cycle c (4c clocks), when the first step
\* falls on clock t0 (1 <= t0) and later ones every P clocks
Steps(c, t0, P) == IF 4 * c < t0 THEN 0 ELSE ((4 * c - t0) \div P) + 1

\* one clock of the LFSR: feedback = bit0 xor bit1, shifted in at bit 14 (and replacing bit 6 in 7-bit mode)
Bit(v, i) == (v \div (2^i)) % 2
LfsrStep(x, narrow) ==
   LET fb == (Bit(x, 0) + Bit(x, 1)) % 2
       sh == (x % 32768) \div 2
       w15 == sh + 16384 * fb
   IN IF narrow THEN w15 - 64 * Bit(w15, 6) + 64 * fb ELSE w15
OutputBit(x) == 1 - Bit(x, 0)
=============================================================================
