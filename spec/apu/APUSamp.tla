-------------------------------- MODULE APUSamp --------------------------------
(* The audio sample stream (property C20): with outputs attached and sound     *)
(* powered on, one (left, right) pair per 95 clock cycles, none otherwise;     *)
(* every sample finite and in [0, 1); a side is silent when no enabled channel *)
(* is routed to it. Samples are logged as round(s * 2^24).                     *)
EXTENDS Integers, Bitwise

One == 16777216
SamplePeriod == 95

\* may the next sample after a sample at clock `last` fall into machine cycle cyc (clocks 4cyc-3 .. 4cyc)?
\* regular: exactly 95 clocks later; slip: once per 2^22-clock epoch the divider re-phases (gap 96..189 clocks)
NextRegular(last, cyc) == 4 * cyc - 3 <= last + SamplePeriod /\ last + SamplePeriod <= 4 * cyc
SlipGaps == 96..189

\* sample values
ValueOK(s, bad) == bad = 0 /\ s >= 0 /\ s < One
\* a side is silent when NR51 routes no channel whose status bit is on to it
Silent(nr51side, status) == (nr51side & status) = 0
=============================================================================
