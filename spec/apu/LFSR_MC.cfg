SPECIFICATION Spec
INVARIANTS NeverZero InRange
POSTCONDITION FullPeriod
CHECK_DEADLOCK FALSE
