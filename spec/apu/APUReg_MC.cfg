SPECIFICATION Spec
INVARIANTS ReadIsStoredOrMask OffReadsMasks OffIgnoresWrites MasksCoverWriteOnlyBits
PROPERTIES WaveRamSurvivesPower
CHECK_DEADLOCK FALSE
