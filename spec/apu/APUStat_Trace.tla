---------------------------- MODULE APUStat_Trace ----------------------------
(* Leg B for C19: NR52 read after every machine cycle, run-length compressed. *)
(* events: [1, addr, v, nr52]  a register write, then NR52                     *)
(*         [0, n, nr52]        n machine cycles; NR52 afterwards; the status   *)
(*                             nibble did not change before the last of them   *)
EXTENDS APUStat, TLC, Json, IOUtils
Scens == ndJsonDeserialize(IOEnv.TRACE)
Phases == IF IOEnv.PHASE = "ALL" THEN 0..(Period - 1) ELSE {atoi(IOEnv.PHASE)}
VARIABLES sc, l, st, cyc, phase
vars == <<sc, l, st, cyc, phase>>
Ev == Scens[sc].ev[l]
\* the scenario starts by writing all four length registers and cycling the power, which defines everything but the sequencer phase
Init == /\ sc \in 1..Len(Scens) /\ l = 1 /\ cyc = 0 /\ phase \in Phases
        /\ st = St0
Next == /\ l <= Len(Scens[sc].ev) /\ l' = l + 1 /\ UNCHANGED <<sc, phase>>
        /\ LET e == Ev IN
           IF e[1] = 1
           THEN /\ st' = Write(st, e[2], e[3]) /\ cyc' = cyc /\ NR52Val(st') = e[4]
           ELSE IF e[1] = 0
           THEN LET r == Adv(st, cyc, e[2], phase, TRUE) IN
                /\ r.ok /\ st' = r.s /\ cyc' = cyc + e[2] /\ NR52Val(st') = e[3]
           ELSE FALSE
Spec == Init /\ [][Next]_vars
Done == (l = Len(Scens[sc].ev) + 1) => PrintT(<<"ACCEPT", Scens[sc].id, phase>>)
Prog == PrintT(<<"AT", Scens[sc].id, l, phase, cyc, st.step, st.power, Status(st), st.ch[1].len, st.ch[2].len, st.ch[3].len, st.ch[4].len>>)
=============================================================================
