------------------------------ MODULE APUStat_MC ------------------------------
(* Leg A for C19 on a scaled machine (sequencer step every 2 cycles, length    *)
(* counters of 4 and 6): every schedule of {length write, DAC on/off, trigger  *)
(* with/without length enable, power toggle, cycle} up to a depth.             *)
EXTENDS APUStat, TLC, IOUtils
VARIABLES s, depth, last, age
\* age[c]: length clocks seen since channel c was last triggered with length enabled (history variable)
mvars == <<s, depth, last, age>>
MaxDepth == IF "DEPTH" \in DOMAIN IOEnv THEN atoi(IOEnv.DEPTH) ELSE 7
Chans == {2, 3}
Addr(c, r) == CASE c = 2 -> (CASE r = 1 -> 65302 [] r = 2 -> 65303 [] r = 4 -> 65305)
                [] c = 3 -> (CASE r = 1 -> 65307 [] r = 2 -> 65306 [] r = 4 -> 65310)
Init == s = St0 /\ depth = 0 /\ last = <<"init">> /\ age = [c \in 1..4 |-> 0]
W(addr, v, tag) == /\ s' = Write(s, addr, v) /\ last' = <<tag, addr, v>> /\ UNCHANGED age
Next == /\ depth < MaxDepth /\ depth' = depth + 1
        /\ \/ \E c \in Chans, v \in {0, 1, 3} : W(Addr(c, 1), v, "len")
           \/ \E c \in Chans, v \in {0, 240} : W(Addr(c, 2), v, "dac")
           \/ \E c \in Chans, v \in {128, 192, 64, 0} : W(Addr(c, 4), v, "nrx4")
           \/ \E v \in {0, 128} : W(65318, v, "pow")
           \/ /\ s' = StepOf(s) /\ last' = <<"step">> /\ UNCHANGED age
Spec == Init /\ [][Next]_mvars

\* a status bit turns on only by a trigger with the DAC enabled
OnOnlyByTriggerWithDac ==
   [][\A c \in Chans : (~s.ch[c].on /\ s'.ch[c].on) =>
         (last'[1] = "nrx4" /\ last'[2] = Addr(c, 4) /\ last'[3] >= 128 /\ s.ch[c].dac /\ s.power)]_mvars
\* and turns off only when the DAC is disabled, sound is powered off, or the length counter expires
OffByDacPowerOrExpiry ==
   [][\A c \in Chans : (s.ch[c].on /\ ~s'.ch[c].on) =>
         \/ (last'[1] = "dac" /\ last'[2] = Addr(c, 2) /\ last'[3] < 8)
         \/ (last'[1] = "pow" /\ last'[3] < 128)
         \/ (s.ch[c].lenEn /\ s.ch[c].len = 1 /\ last'[1] = "step" /\ s.step % 2 = 0)
         \/ (last'[1] = "nrx4" /\ last'[2] = Addr(c, 4) /\ s.ch[c].len = 1 /\ FirstHalf(s))     \* the extra length clock
         \/ (last'[1] = "nrx4" /\ last'[2] = Addr(c, 4) /\ last'[3] >= 128 /\ ~s.ch[c].dac)]_mvars
\* length counters stay in range and a running length never exceeds the maximum
LenInRange == \A c \in 1..4 : s.ch[c].len \in 0..MaxLen(c)
OnImpliesDacAndPower == \A c \in 1..4 : s.ch[c].on => (s.ch[c].dac /\ s.power)
\* with length enabled a channel is on only while its counter is positive
OnWithLengthMeansPositive == \A c \in Chans : (s.ch[c].on /\ s.ch[c].lenEn) => s.ch[c].len > 0
=============================================================================
