----------------------------- MODULE APUSamp_Trace -----------------------------
(* Leg B for C20. reset = [attached(0/1), power at start(0/1)]                  *)
(* events: ["w", addr, v]   register write between cycles                       *)
(*   ["s", cyc, nr52before, nr52after, nr51, L, R, bad]  one pair emitted in    *)
(*                          machine cycle cyc                                    *)
(*   ["x", cyc, nL, nR]     a cycle in which the numbers of left / right         *)
(*                          samples were not both 1 (never acceptable)           *)
(*   ["p", cyc, a, b]       paired runs differing only in an unrouted channel:   *)
(*                          the sample of the judged side in run A and run B     *)
(*   ["end", cyc]           end of the observation                               *)
EXTENDS APUSamp, TLC, Json, IOUtils, Sequences
Scens == ndJsonDeserialize(IOEnv.TRACE)
VARIABLES sc, l, power, last, slips, since
\* last: clock of the last sample (-1 unknown); since: clock from which samples are due again (power-on), -1 none
\* slips: clock of the most recent slip (-1 none): the divider re-phases once per 2^22-clock epoch, so the next slip
\* cannot come before a whole epoch (less the two sample periods a slip may span) has passed
SlipAllowed(clk) == slips < 0 \/ clk - slips >= 4194304 - 2 * SamplePeriod
vars == <<sc, l, power, last, slips, since>>
Ev == Scens[sc].ev[l]
Attached == Scens[sc].reset[1] = 1
Init == /\ sc \in 1..Len(Scens) /\ l = 1
        /\ power = (Scens[sc].reset[2] = 1) /\ last = 0 - 1 /\ slips = 0 - 1 /\ since = 0

CycClocks(cyc) == (4 * cyc - 3)..(4 * cyc)

Sample(e) ==
   LET cyc == e[2]  st == (e[3] | e[4]) % 16  nr51 == e[5] IN
   /\ power /\ Attached
   /\ ValueOK(e[6], e[8]) /\ ValueOK(e[7], e[8])
   /\ (Silent(nr51 \div 16, st) => e[6] = 0)
   /\ (Silent(nr51 % 16, st) => e[7] = 0)
   /\ IF last < 0
      THEN \* first sample after the start / a power-on: within one period (a slip may intervene)
           /\ last' \in CycClocks(cyc)
           /\ last' - since <= SamplePeriod + 94
           /\ UNCHANGED slips
      ELSE \/ NextRegular(last, cyc) /\ last' = last + SamplePeriod /\ UNCHANGED slips
           \/ \E g \in SlipGaps : /\ (last + g) \in CycClocks(cyc) /\ last' = last + g
                                  /\ SlipAllowed(last + g) /\ slips' = last + g
   /\ UNCHANGED <<power, since>>

WriteEv(e) ==
   IF e[2] = 65318
   THEN /\ power' = (e[3] >= 128)
        /\ IF e[3] >= 128 /\ ~power THEN last' = 0 - 1 /\ since' = e[4] * 4      \* power-on at (the end of) cycle e[4]
           ELSE IF e[3] < 128 THEN last' = 0 - 1 /\ UNCHANGED since
           ELSE UNCHANGED <<last, since>>
        /\ UNCHANGED slips
   ELSE UNCHANGED <<power, last, slips, since>>

\* between two logged events no sample may have been due: checked when the next event (sample, power-off or end) arrives
NoneMissedUpTo(cyc) == (power /\ Attached /\ last >= 0) => (4 * cyc - last < SamplePeriod + (IF SlipAllowed(4 * cyc) THEN 95 ELSE 0))

Next == /\ l <= Len(Scens[sc].ev) /\ l' = l + 1 /\ UNCHANGED sc
        /\ LET e == Ev IN
           CASE e[1] = "s" -> Sample(e)
             [] e[1] = "w" -> WriteEv(e) /\ (e[2] = 65318 /\ e[3] < 128 => NoneMissedUpTo(e[4]))
             [] e[1] = "p" -> e[3] = e[4] /\ UNCHANGED <<power, last, slips, since>>
             [] e[1] = "end" -> NoneMissedUpTo(e[2]) /\ UNCHANGED <<power, last, slips, since>>
             [] OTHER -> FALSE
Spec == Init /\ [][Next]_vars
Done == (l = Len(Scens[sc].ev) + 1) => PrintT(<<"ACCEPT", Scens[sc].id>>)
Prog == PrintT(<<"AT", Scens[sc].id, l, power, last, slips, since>>)
=============================================================================
