---------------------------- MODULE WaveAcc_Trace ----------------------------
(* Binding of WaveAcc to the real audio unit (through Mapper.Read / Write).   *)
(* reset = ["waveacc", seed, f, [16 initial bytes]] (bytes written while the  *)
(* channel was off; none of them and no written value is FF, so that a read   *)
(* of FF means "blocked").                                                    *)
(*   [0, a, v, pos, fresh]  read of FF30+a returned v; pos = the channel's    *)
(*                          position, fresh = 1 if it moved during the        *)
(*                          machine cycle before the access                   *)
(*   [1, a, v, pos, fresh]  write of v to FF30+a                              *)
(*   [2, a, v]              channel off (DAC off): plain read                 *)
(*   [3, a, v]              channel off: plain write                          *)
(*   [4]                    channel switched on again and triggered           *)
EXTENDS WaveAcc, TLC, Json, IOUtils, Sequences
Scens == ndJsonDeserialize(IOEnv.TRACE)
VARIABLES sc, l, cand, mode
vars == <<sc, l, cand, mode>>
Ev == Scens[sc].ev[l]
F == Scens[sc].reset[3]

Init == /\ sc \in 1..Len(Scens) /\ l = 1
        /\ cand = [i \in 0..15 |-> {Scens[sc].reset[4][i + 1]}]
        /\ mode = "unknown"

Next == /\ l <= Len(Scens[sc].ev) /\ l' = l + 1 /\ UNCHANGED sc
        /\ LET e == Ev IN
           CASE e[1] = 0 ->
                  /\ ReadOK(cand, e[4], e[5] = 1, e[3])
                  /\ cand' = AfterRead(cand, e[4], e[5] = 1, e[3])
                  /\ IF e[5] = 1 /\ Aligned(F)
                     THEN LET m == IF e[3] = Blocked THEN "blocked" ELSE "works" IN
                          /\ mode \in {"unknown", m} /\ mode' = m
                     ELSE UNCHANGED mode
             [] e[1] = 1 ->
                  /\ cand' = IF e[5] = 1 /\ mode = "works" THEN [cand EXCEPT ![e[4] \div 2] = {e[3]}]
                             ELSE IF e[5] = 1 /\ mode = "blocked" THEN cand
                             ELSE AfterWrite(cand, e[4], e[5] = 1, e[3])
                  /\ UNCHANGED mode
             [] e[1] = 2 -> PlainReadOK(cand, e[2], e[3]) /\ cand' = [cand EXCEPT ![e[2]] = {e[3]}] /\ UNCHANGED mode
             [] e[1] = 3 -> cand' = PlainWrite(cand, e[2], e[3]) /\ UNCHANGED mode
             [] e[1] = 4 -> UNCHANGED cand /\ mode' = "unknown"

Spec == Init /\ [][Next]_vars
Done == (l = Len(Scens[sc].ev) + 1) => PrintT(<<"ACCEPT", Scens[sc].id>>)
Prog == PrintT(<<"AT", Scens[sc].id, l, mode, cand>>)
=============================================================================
