----------------------------- MODULE APUGen_Trace -----------------------------
(* Leg B for C21. reset = [kind, a, b, c, v0, cycles]:                         *)
(*   kind "sq"/"wave": a = the 11-bit frequency; kind "noise": a = r, b = s,   *)
(*   c = 1 for the 7-bit mode; v0 = generator value right after the trigger.   *)
(* events [cycle, value]: the generator value (duty index / wave position /    *)
(* LFSR) changed during machine cycle `cycle` (1-based) to `value`.            *)
EXTENDS APUGen, TLC, Json, IOUtils, Sequences
Scens == ndJsonDeserialize(IOEnv.TRACE)
VARIABLES sc, l, t0, x
\* t0: the clock (1-based) of the first generator step, inferred from the first event; x: current LFSR (noise)
vars == <<sc, l, t0, x>>
R == Scens[sc].reset
Kind == R[1]
\* channel 1 while the sweep unit changes its frequency, or channel 3 while the program rewrites NR33 (without a
\* trigger): events [cycle, value, frequency now]; the timer is reloaded at every step with the frequency then in effect
Sweep == Kind \in {"sqsweep", "wavemod"}
\* machine cycles between steps at frequency f (even f for the wave channel, so that it is a whole number)
StepCycles(f) == IF Kind = "wavemod" THEN (2048 - f) \div 2 ELSE 2048 - f
StepMod == IF Kind = "wavemod" THEN 32 ELSE 8
P == IF Kind = "noise" THEN NoisePeriod(R[2], R[3]) ELSE IF Sweep THEN 4 ELSE Period(Kind, R[2])
Narrow == Kind = "noise" /\ R[4] = 1
V0 == R[5]
Evs == Scens[sc].ev
Proj(v) == IF Narrow THEN v % 128 ELSE v % 32768

Init == /\ sc \in 1..Len(Scens) /\ l = 1
        /\ x = Proj(V0)
        /\ IF Len(Evs) = 0 THEN t0 = 0
           ELSE t0 \in {4 * Evs[1][1] - k : k \in 0..3}          \* the first step fell inside the cycle of the first change
        \* no step may have been expected before the first observed change, and a silent run must be shorter than one period
        /\ (Len(Evs) = 0 /\ ~Sweep => 4 * R[6] < P + 16)

Next == /\ l <= Len(Evs) /\ l' = l + 1 /\ UNCHANGED <<sc, t0>>
        /\ LET c == Evs[l][1]  v == Evs[l][2] IN
           IF Sweep
           THEN \* the timer is reloaded at every step with the frequency then in effect: the interval after a step is
                \* 4*(2048-f) clocks = 2048-f machine cycles for the f seen right after that step
                \* (the frequency is logged at the end of the machine cycle of the step: when a sweep clock changed it
                \* since the step before, it may have done so just after this step's reload, which then used the old one)
                /\ (l > 1 => \/ c - Evs[l - 1][1] = StepCycles(Evs[l - 1][3])
                             \/ c - Evs[l - 1][1] = StepCycles(IF l > 2 THEN Evs[l - 2][3] ELSE R[2]))
                /\ v = ((IF l = 1 THEN V0 ELSE Evs[l - 1][2]) + 1) % StepMod
                /\ UNCHANGED x
           ELSE IF Kind = "noise"
           THEN /\ Steps(c, t0, P) = l /\ Steps(c - 1, t0, P) = l - 1       \* exactly one LFSR clock per period
                /\ x' = Proj(LfsrStep(x, Narrow))
                /\ Proj(v) = x'
                /\ x' # 0
           ELSE /\ v = (V0 + Steps(c, t0, P)) % Modulus(Kind)
                /\ (IF l = 1 THEN V0 ELSE Evs[l - 1][2]) = (V0 + Steps(c - 1, t0, P)) % Modulus(Kind)
                /\ UNCHANGED x
\* after the last change nothing more was due until the end of the observation
TailOK == (l = Len(Evs) + 1 /\ Len(Evs) > 0) =>
           IF Sweep THEN R[6] - Evs[Len(Evs)][1] < StepCycles(Evs[Len(Evs)][3]) + 1
           ELSE IF Kind = "noise" THEN Steps(R[6], t0, P) = Len(Evs)
           ELSE Evs[Len(Evs)][2] = (V0 + Steps(R[6], t0, P)) % Modulus(Kind)
Spec == Init /\ [][Next]_vars
Done == (l = Len(Evs) + 1 /\ TailOK) => PrintT(<<"ACCEPT", Scens[sc].id>>)
Prog == PrintT(<<"AT", Scens[sc].id, l, t0, x>>)
=============================================================================
