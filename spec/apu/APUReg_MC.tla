------------------------------ MODULE APUReg_MC ------------------------------
(* Leg A for C18: a few registers x values x power toggles, depth-bounded.    *)
EXTENDS APUReg, TLC
VARIABLES depth, last
mvars == <<rvars, depth, last>>
Sub == {65296, 65297, 65300, 65306, 65308, 65317}
Init == power = TRUE /\ regs = [a \in Regs |-> 0] /\ wave = <<>> /\ wknown = {} /\ depth = 0 /\ last = <<"init">>
Next == /\ depth < 5 /\ depth' = depth + 1
        /\ \/ \E a \in Sub, v \in {0, 85, 170, 255} : WriteReg(a, v) /\ last' = <<"w", a, v, power>>
           \/ \E v \in {0, 128} : WriteNR52(v) /\ last' = <<"p", v>>
           \/ \E i \in {0, 15}, v \in {17, 34} : WaveWrite(i, v, FALSE) /\ last' = <<"ww", i, v>>
Spec == Init /\ [][Next]_mvars
Rd(a) == ReadOf(regs[a], a)
\* every register reads back the last written value ORed with its mask while on
ReadIsStoredOrMask == (last[1] = "w" /\ last[4]) => Rd(last[2]) = (last[3] | OrMask(last[2]))
OffReadsMasks == (~power) => \A a \in Regs : Rd(a) = OrMask(a)
OffIgnoresWrites == (last[1] = "w" /\ ~last[4]) => Rd(last[2]) = OrMask(last[2])
WaveRamSurvivesPower == [][(last'[1] = "p") => (wave' = wave /\ wknown' = wknown)]_mvars
MasksCoverWriteOnlyBits == \A a \in Regs : Rd(a) \in 0..255 /\ (Rd(a) & OrMask(a)) = OrMask(a)
=============================================================================
