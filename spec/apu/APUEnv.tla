-------------------------------- MODULE APUEnv --------------------------------
(* The volume envelope of channels 1, 2 and 4 (behaviour beyond the listed   *)
(* properties; NRx2 = vvvv d ppp).                                           *)
(*                                                                           *)
(* A trigger loads the volume with vvvv and the envelope timer with the      *)
(* period ppp. The envelope is clocked at 64 Hz (every 16384 machine cycles, *)
(* step 7 of the frame sequencer). With ppp # 0 the volume moves one step    *)
(* towards 15 (d = 1) or 0 (d = 0) every ppp envelope clocks until it        *)
(* saturates; with ppp = 0 it never moves.                                   *)
(*                                                                           *)
(* Named deviation: on hardware the first step comes at the ppp-th envelope  *)
(* clock after the trigger; the implementation counts the timer down to 0    *)
(* and steps on the clock after that, i.e. at the (ppp+1)-th. Both are       *)
(* accepted for the first step (FirstStepClocks); every later step is        *)
(* exactly ppp clocks after the one before.                                  *)
EXTENDS Integers

EnvPeriod == 16384          \* machine cycles between envelope clocks

Vol0(x) == x \div 16
Per(x) == x % 8
Up(x) == (x \div 8) % 2 = 1

Saturated(vol, up) == (up /\ vol = 15) \/ (~up /\ vol = 0)
StepOf(vol, up) == IF up THEN vol + 1 ELSE vol - 1

\* number of envelope clocks (cycles = phi mod EnvPeriod) in the half-open interval (a, b]
Clocks(a, b, phi) == ((b - phi) \div EnvPeriod) - ((a - phi) \div EnvPeriod)

FirstStepClocks(per) == {per, per + 1}
=============================================================================
