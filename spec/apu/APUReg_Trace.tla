---------------------------- MODULE APUReg_Trace ----------------------------
(* Leg B for C18. events: ["w", addr, v]  ["r", addr, v]  (FF10-FF26)          *)
(*   ["rw", addr, v, nr52]  wave RAM read, nr52 read immediately before        *)
(*   ["ww", addr, v, nr52]  wave RAM write                                     *)
(*   ["tick", n]            machine cycles                                     *)
EXTENDS APUReg, TLC, Json, IOUtils, Sequences
Scens == ndJsonDeserialize(IOEnv.TRACE)
VARIABLES sc, l
vars == <<rvars, sc, l>>
Ev == Scens[sc].ev[l]
Init == sc \in 1..Len(Scens) /\ l = 1 /\ RInit
Ch3On(nr52) == (nr52 \div 4) % 2 = 1
Next == /\ l <= Len(Scens[sc].ev) /\ l' = l + 1 /\ UNCHANGED sc
        /\ LET e == Ev IN
           CASE e[1] = "w" /\ e[2] = NR52 -> WriteNR52(e[3])
             [] e[1] = "w" /\ e[2] = 65310 /\ e[3] >= 128 -> /\ regs' = (IF power THEN [regs EXCEPT ![e[2]] = e[3]] ELSE regs) /\ wknown' = {} /\ wave' = <<>> /\ UNCHANGED power   \* NR34 trigger may corrupt wave RAM
             [] e[1] = "w" /\ e[2] \in Regs -> WriteReg(e[2], e[3])
             [] e[1] = "w" -> UNCHANGED rvars
             [] e[1] = "r" /\ e[2] = NR52 -> ReadNR52(e[3])
             [] e[1] = "r" /\ e[2] \in Regs -> ReadReg(e[2], e[3])
             [] e[1] = "r" -> e[3] = 255 /\ UNCHANGED rvars                  \* FF15, FF1F, FF27-FF2F
             [] e[1] = "rw" -> WaveRead(e[2] - 65328, e[3], Ch3On(e[4]))
             [] e[1] = "ww" -> WaveWrite(e[2] - 65328, e[3], Ch3On(e[4]))
             [] e[1] = "tick" -> UNCHANGED rvars
             [] OTHER -> FALSE
Spec == Init /\ [][Next]_vars
Done == (l = Len(Scens[sc].ev) + 1) => PrintT(<<"ACCEPT", Scens[sc].id>>)
Prog == PrintT(<<"AT", Scens[sc].id, l, power>>)
=============================================================================
