SPECIFICATION Spec
INVARIANTS Prog
CHECK_DEADLOCK FALSE
