SPECIFICATION Spec
PROPERTIES GapIsPeriodOrLonger NoneWhenOffOrDetached
CHECK_DEADLOCK FALSE
