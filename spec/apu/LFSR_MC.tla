-------------------------------- MODULE LFSR_MC --------------------------------
(* Leg A for C21: the complete cycle of the noise LFSR from the all-ones       *)
(* state: 32767 states in 15-bit mode; in 7-bit mode the low seven bits cycle  *)
(* with period 127. TLC explores the whole graph; the number of distinct       *)
(* states is checked by the runner and by the POSTCONDITION.                   *)
EXTENDS APUGen, TLC, IOUtils
Narrow == IOEnv.NARROW = "1"
VARIABLES x
Init == x = 32767
Next == x' = IF Narrow THEN (LfsrStep(x, TRUE) % 128) + 32640 ELSE LfsrStep(x, FALSE)   \* in narrow mode only the low 7 bits matter
Spec == Init /\ [][Next]_x
NeverZero == (IF Narrow THEN x % 128 ELSE x) # 0
InRange == x \in 1..32767
FullPeriod == TLCGet("distinct") = (IF Narrow THEN 127 ELSE 32767)
=============================================================================
