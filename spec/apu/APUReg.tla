-------------------------------- MODULE APUReg --------------------------------
(* Sound registers FF10-FF26 and wave RAM as seen through reads (property C18). *)
(* regs: register address -> the bits last written (only meaningful under the   *)
(* register's readable mask); power; wave: wave RAM cell -> byte for the cells   *)
(* whose contents are known.                                                    *)
EXTENDS Integers, Bitwise, FiniteSets

Regs == {65296, 65297, 65298, 65299, 65300, 65302, 65303, 65304, 65305, 65306, 65307, 65308, 65309, 65310,
         65312, 65313, 65314, 65315, 65316, 65317}                      \* NR10-NR51 (FF15 and FF1F do not exist)
NR52 == 65318
\* bits that always read 1
OrMask(a) ==
   CASE a = 65296 -> 128 [] a = 65297 -> 63  [] a = 65298 -> 0   [] a = 65299 -> 255 [] a = 65300 -> 191
     [] a = 65302 -> 63  [] a = 65303 -> 0   [] a = 65304 -> 255 [] a = 65305 -> 191
     [] a = 65306 -> 127 [] a = 65307 -> 255 [] a = 65308 -> 159 [] a = 65309 -> 255 [] a = 65310 -> 191
     [] a = 65312 -> 255 [] a = 65313 -> 0   [] a = 65314 -> 0   [] a = 65315 -> 191
     [] a = 65316 -> 0   [] a = 65317 -> 0

ReadOf(stored, a) == (stored & (255 - OrMask(a))) | OrMask(a)

VARIABLES power, regs, wave, wknown
rvars == <<power, regs, wave, wknown>>

\* power-on state of the machine is not part of the statement: the registers start unknown and are pinned by
\* the first observation (regs[a] = -1: unknown)
RInit == power \in BOOLEAN /\ regs = [a \in Regs |-> 0 - 1] /\ wave = <<>> /\ wknown = {}

WriteReg(a, v) ==
   /\ a \in Regs
   /\ regs' = IF power THEN [regs EXCEPT ![a] = v] ELSE regs        \* while off, writes are ignored (length parts are not readable)
   /\ UNCHANGED <<power, wave, wknown>>

WriteNR52(v) ==
   /\ power' = (v >= 128)
   /\ regs' = IF v < 128 THEN [a \in Regs |-> 0] ELSE regs           \* powering off clears every register
   /\ UNCHANGED <<wave, wknown>>                                     \* wave RAM survives

ReadReg(a, v) ==
   /\ a \in Regs
   /\ IF regs[a] < 0
      THEN /\ (v & OrMask(a)) = OrMask(a)
           /\ regs' = [regs EXCEPT ![a] = v]
      ELSE v = ReadOf(regs[a], a) /\ UNCHANGED regs
   /\ (~power => v = OrMask(a))
   /\ UNCHANGED <<power, wave, wknown>>

\* NR52: 70 | power | channel status (status bits belong to C19)
ReadNR52(v) == /\ (v & 112) = 112 /\ ((v >= 128) <=> power) /\ (~power => v = 112)
               /\ UNCHANGED rvars

\* wave RAM while channel 3 is off behaves as plain memory; while it is on nothing is promised
WaveRead(i, v, ch3on) ==
   IF ch3on THEN UNCHANGED rvars
   ELSE IF i \in wknown THEN v = wave[i] /\ UNCHANGED rvars
   ELSE /\ wknown' = wknown \cup {i} /\ wave' = [x \in wknown' |-> IF x = i THEN v ELSE wave[x]]
        /\ UNCHANGED <<power, regs>>
WaveWrite(i, v, ch3on) ==
   IF ch3on THEN wknown' = {} /\ wave' = <<>> /\ UNCHANGED <<power, regs>>
   ELSE /\ wknown' = wknown \cup {i} /\ wave' = [x \in wknown' |-> IF x = i THEN v ELSE wave[x]]
        /\ UNCHANGED <<power, regs>>
\* a trigger of channel 3 while it plays may corrupt the first bytes of wave RAM (documented DMG behaviour)
WaveForget == wknown' = {} /\ wave' = <<>> /\ UNCHANGED <<power, regs>>
=============================================================================
