------------------------------ MODULE MemMap_MC ------------------------------
(* Leg A for C06/C07: static sanity of the region table and the footprint    *)
(* table over a quotient of the address space (every I/O-page address and    *)
(* both boundaries of every region), plus a small dynamic model: sequences   *)
(* of writes/reads over representative plain cells show the shadow semantics *)
(* (mirror in both directions, masked registers, unmapped cells inert).      *)
EXTENDS MemMap, TLC

Reps == {0, 16383, 16384, 32767, 32768, 40959, 40960, 49151, 49152, 56831, 56832, 57343, 57344, 65023,
         65024, 65183, 65184, 65279} \cup Range(65280, 65535)

Classes == {"cart", "vram", "wram", "oam", "void", "free", "ro", "timer", "masked", "lcdc", "plainreg", "dma", "hram", "ie", "unmapped"}

ASSUME ClassTotal == \A a \in Reps : Class(a) \in Classes
ASSUME CanonIdempotent == \A a \in Reps : Canon(Canon(a)) = Canon(a) /\ Class(Canon(a)) = Class(a)
ASSUME MirrorBothWays == \A a \in {49152, 50000, 56831} : Canon(a + 8192) = a /\ (a + 8192) \in Footprint("mbc1", a) /\ a \in Footprint("mbc1", a + 8192)
ASSUME FootprintContainsSelf == \A a \in Reps : (Class(a) \notin {"void", "cart"}) => a \in Footprint("mbc1", a)
ASSUME MasksDisjoint == \A a \in {65287, 65295, 65345} : (WMask(a) & OMask(a)) = 0 /\ WMask(a) + OMask(a) + FreeMask(a) = 255
ASSUME FootprintsAreLocal ==
   \A a \in Reps :
      /\ (a >= 32768 /\ a < 65280 /\ Class(a) # "cart") => Cardinality(Footprint("mbc1", a)) <= 2
      /\ (a >= 65280 /\ a \notin {65350, 65318, 65310, 65306} /\ ~(a >= 65328 /\ a <= 65343)) => Cardinality(Footprint("mbc1", a)) <= 3
      /\ (a >= 65280 /\ a # 65350) => \A b \in Footprint("mbc1", a) : b >= 65280
ASSUME UnmappedSet == {a \in Range(65280, 65407) : Class(a) = "unmapped"} =
   {65283} \cup Range(65288, 65294) \cup {65301, 65311} \cup Range(65319, 65327) \cup Range(65356, 65407)

\* the predicate form used by the trace specification is the same relation as the set form
ASSUME PredicateEqualsSet ==
   \A k \in {"mbc1", "mbc2"} : \A a \in Reps \cup {41000, 50000, 60000} :
      LET F == Footprint(k, a) IN
      \A b \in Reps \cup {41000, 41512, 50000, 58192, 51808, 60000} : InFoot(k, a, b) <=> (b \in F)

VARIABLE x
Init == x = 0
Next == UNCHANGED x
Spec == Init /\ [][Next]_x
=============================================================================
