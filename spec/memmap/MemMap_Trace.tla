----------------------------- MODULE MemMap_Trace -----------------------------
(* Leg B for C06 and C07: bus operations recorded through the real Mapper.   *)
(* reset = [kind, lcdOn(0/1)]                                                *)
(* events: ["w", addr, v]  ["r", addr, v]  ["tick", n] (n machine cycles)     *)
(*         ["wf", addr, v, [[a, old, new]..]]  a write with the complete diff *)
(*         of the 64 KiB read-out before / after it (C07)                     *)
(*         ["hot", s1, s2]  harness put the sound / timer / serial hardware    *)
(*         into a busy state (seeded by s1, s2); register contents unknown     *)
EXTENDS MemMap, TLC, Json, IOUtils, Sequences

Scens == ndJsonDeserialize(IOEnv.TRACE)

VARIABLES sc, l, mem, known, lcd, dma
\* mem: canonical cell -> value for cells in known; lcd: LCDC bit 7; dma: an OAM DMA may be running
vars == <<sc, l, mem, known, lcd, dma>>
Ev == Scens[sc].ev[l]
Kind == Scens[sc].reset[1]

Init == /\ sc \in 1..Len(Scens) /\ l = 1
        /\ mem = <<>> /\ known = {} /\ lcd = (Scens[sc].reset[2] = 1) /\ dma = FALSE

Put(c, v) == /\ known' = known \cup {c}
             /\ mem' = [x \in known' |-> IF x = c THEN v ELSE mem[x]]
Forget(S) == /\ known' = known \ S
             /\ mem' = [x \in known' |-> mem[x]]

OamCells == {x \in known : x >= 65024 /\ x < 65184}
Accessible(cls) == CASE cls = "vram" -> ~lcd [] cls \in {"oam", "void"} -> (~lcd /\ ~dma) [] OTHER -> TRUE

\* A TIMA write is ignored in the reload cycle after an overflow (C12). This module does not follow the timer's
\* cycles, so a written TIMA value is only remembered while TAC is known to have the timer switched off.
TimerOff == 65287 \in known /\ (mem[65287] \div 4) % 2 = 0

WriteStep(a, v) ==
   LET cls == Class(a)  c == Canon(a) IN
   CASE a = 65285 /\ ~TimerOff -> Forget({c}) /\ UNCHANGED <<lcd, dma>>        \* TIMA with the timer running: see TimerOff
     [] cls \in {"wram", "hram", "ie", "plainreg", "timer", "dma"} -> Put(c, v) /\ UNCHANGED lcd /\ dma' = (dma \/ cls = "dma")
     [] cls = "vram" -> (IF Accessible(cls) THEN Put(c, v) ELSE Forget({c})) /\ UNCHANGED <<lcd, dma>>
     \* an OAM access while the PPU scans may rewrite whole rows (the OAM bug, C17): nothing in OAM is known afterwards
     [] cls = "oam" -> (IF Accessible(cls) THEN Put(c, v) ELSE Forget(OamCells)) /\ UNCHANGED <<lcd, dma>>
     [] cls = "void" -> (IF Accessible(cls) THEN UNCHANGED <<mem, known>> ELSE Forget(OamCells)) /\ UNCHANGED <<lcd, dma>>
     [] cls = "masked" -> Put(c, v & WMask(a)) /\ UNCHANGED <<lcd, dma>>
     [] cls = "lcdc"   -> Put(c, v) /\ lcd' = (v >= 128) /\ UNCHANGED dma
     [] cls = "ro"     -> Put(c, v) /\ UNCHANGED <<lcd, dma>>           \* remembered as "the value that must NOT be stored"
     [] OTHER          -> UNCHANGED <<mem, known, lcd, dma>>            \* cart, void, unmapped, free

ReadStep(a, v) ==
   LET cls == Class(a)  c == Canon(a) IN
   CASE cls \in {"wram", "hram", "ie", "plainreg", "timer", "dma", "lcdc"} ->
            IF c \in known THEN v = mem[c] /\ UNCHANGED <<mem, known, lcd, dma>>
            ELSE Put(c, v) /\ UNCHANGED <<lcd, dma>> /\ (cls = "lcdc" => lcd = (v >= 128))
     [] cls \in {"vram", "oam"} ->
            IF ~Accessible(cls) THEN (IF cls = "oam" THEN Forget(OamCells) ELSE UNCHANGED <<mem, known>>) /\ UNCHANGED <<lcd, dma>>
            ELSE IF c \in known THEN v = mem[c] /\ UNCHANGED <<mem, known, lcd, dma>>
            ELSE Put(c, v) /\ UNCHANGED <<lcd, dma>>
     [] cls = "void"     -> /\ (Accessible(cls) => v = 0) /\ UNCHANGED <<lcd, dma>>
                            /\ IF Accessible(cls) THEN UNCHANGED <<mem, known>> ELSE Forget(OamCells)
     [] cls = "unmapped" -> v = 255 /\ UNCHANGED <<mem, known, lcd, dma>>
     [] cls = "masked"   ->
            /\ (v & OMask(a)) = OMask(a)
            /\ IF c \in known THEN (v & WMask(a)) = mem[c] /\ UNCHANGED <<mem, known>>
               ELSE Put(c, v & WMask(a))
            /\ (v & (255 - WMask(a) - OMask(a) - FreeMask(a))) = 0
            /\ (a = 65345 /\ ~lcd => v % 4 = 0)                 \* STAT: the mode bits are read-only and read 0 while the LCD is off
            /\ UNCHANGED <<lcd, dma>>
     [] cls = "ro"       ->
            \* LY and DIV never take the written value: after a write of w (no time passing) the register
            \* holds what it held before or 0. We only know w here: reading w back is accepted only if w = 0.
            /\ (c \in known) => (v # mem[c] \/ mem[c] = 0 \/ (a = 65348 /\ ~lcd))
            /\ ((a = 65348 /\ ~lcd) => v = 0)
            /\ UNCHANGED <<mem, known, lcd, dma>>
     [] OTHER -> UNCHANGED <<mem, known, lcd, dma>>

\* time passes: timer and LCD registers move, the hardware may raise requests in IF; a DMA completes within 162 cycles and leaves OAM with copied bytes
TickStep(n) ==
   /\ Forget({65285, 65284, 65348, 65295} \cup (IF dma THEN {a \in known : a >= 65024 /\ a < 65184} ELSE {}))
   /\ dma' = (dma /\ n < 162)
   /\ UNCHANGED lcd

\* C07: every address whose readable value changed lies in the documented footprint of the written address
FootStep(a, v, diffs) ==
   /\ \A i \in 1..Len(diffs) : InFoot(Kind, a, diffs[i][1])
   /\ WriteStep(a, v)

Next == /\ l <= Len(Scens[sc].ev) /\ l' = l + 1 /\ UNCHANGED sc
        /\ LET e == Ev IN
           CASE e[1] = "w"    -> WriteStep(e[2], e[3])
             [] e[1] = "r"    -> ReadStep(e[2], e[3])
             [] e[1] = "tick" -> TickStep(e[2])
             [] e[1] = "hot"  -> Forget(known) /\ dma' = FALSE /\ UNCHANGED lcd   \* the harness rewrote sound, timer and serial registers
             [] e[1] = "wf"   -> FootStep(e[2], e[3], e[4])
             [] OTHER         -> FALSE

Spec == Init /\ [][Next]_vars
Done == (l = Len(Scens[sc].ev) + 1) => PrintT(<<"ACCEPT", Scens[sc].id>>)
Prog == PrintT(<<"AT", Scens[sc].id, l, lcd, dma>>)
=============================================================================
