SPECIFICATION Spec
