-------------------------------- MODULE MemMap --------------------------------
(* The DMG address space as seen through the bus (properties C06 and C07).    *)
(*                                                                            *)
(* C06: what a location reads back after writes. The model is a sparse        *)
(* shadow: `mem` maps the canonical cells seen so far to their value (the     *)
(* first read of a never-written plain cell defines it: initial contents are  *)
(* not pinned). Class(addr) says how an address behaves.                      *)
(* C07: Footprint(kind, addr) is the set of addresses whose readable value a  *)
(* write to addr may change.                                                  *)
EXTENDS Integers, Bitwise, FiniteSets

\* ---------------------------------------------------------------- classes
\* "cart"   0000-7FFF, A000-BFFF   cartridge (C08/C09): not judged here
\* "vram"   8000-9FFF plain while the LCD is off
\* "wram"   C000-DFFF plain; E000-FDFF is its mirror
\* "oam"    FE00-FE9F plain while the LCD is off and no DMA runs
\* "void"   FEA0-FEFF reads 00 while OAM is accessible, ignores writes
\* "hram"   FF80-FFFE, "ie" FFFF   plain
\* "unmapped" reads FF, ignores writes
\* "masked" register: stores (v & wmask), reads stored | omask
\* "ro"     LY, DIV: a write never stores the written value
\* "dma"    FF46: reads back the last value written
\* "free"   not judged by C06 (JOYP C22, SB/SC C23, sound C18, STAT low bits ...)
Canon(a) == IF a >= 57344 /\ a < 65024 THEN a - 8192 ELSE a      \* echo -> work RAM

Class(a) ==
   CASE a < 32768 -> "cart"
     [] a < 40960 -> "vram"
     [] a < 49152 -> "cart"
     [] a < 65024 -> "wram"
     [] a < 65184 -> "oam"
     [] a < 65280 -> "void"
     [] a \in {65280, 65281, 65282} -> "free"                      \* JOYP, SB, SC
     [] a = 65284 -> "ro"                                          \* DIV
     [] a \in {65285, 65286} -> "timer"                            \* TIMA, TMA: plain while no time passes
     [] a = 65287 -> "masked"                                      \* TAC
     [] a = 65295 -> "masked"                                      \* IF
     [] a >= 65296 /\ a <= 65318 /\ a \notin {65301, 65311} -> "free"   \* sound registers (C18)
     [] a >= 65328 /\ a <= 65343 -> "free"                         \* wave RAM (C18)
     [] a = 65344 -> "lcdc"
     [] a = 65345 -> "masked"                                      \* STAT
     [] a \in {65346, 65347, 65349, 65351, 65352, 65353, 65354, 65355} -> "plainreg"   \* SCY SCX LYC BGP OBP0 OBP1 WY WX
     [] a = 65348 -> "ro"                                          \* LY
     [] a = 65350 -> "dma"
     [] a >= 65408 /\ a < 65535 -> "hram"
     [] a = 65535 -> "ie"
     [] OTHER -> "unmapped"

\* masked registers: (bits stored, bits that always read 1, bits not judged)
WMask(a) == CASE a = 65287 -> 7 [] a = 65295 -> 31 [] a = 65345 -> 120 [] OTHER -> 255
OMask(a) == CASE a = 65287 -> 248 [] a = 65295 -> 224 [] a = 65345 -> 128 [] OTHER -> 0
FreeMask(a) == IF a = 65345 THEN 7 ELSE 0        \* STAT mode and coincidence bits are read-only and time dependent

\* ---------------------------------------------------------------- C07
Range(lo, hi) == {a \in 0..65535 : a >= lo /\ a <= hi}
RamMirrors(kind, a) == IF kind = "mbc2" THEN {b \in Range(40960, 49151) : b % 512 = a % 512} ELSE {a}
Footprint(kind, a) ==
   CASE a < 32768 -> Range(0, 32767) \cup Range(40960, 49151)          \* cartridge control: the ROM and RAM windows
     [] a < 40960 -> {a}
     [] a < 49152 -> RamMirrors(kind, a)
     [] a < 56832 -> {a, a + 8192}
     [] a < 57344 -> {a}
     [] a < 65024 -> {a, a - 8192}
     [] a < 65184 -> {a}
     [] a < 65280 -> {}
     [] a = 65284 -> {65284, 65285}                                     \* DIV (an edge it causes may clock TIMA)
     [] a = 65286 -> {65286, 65285}                                     \* TMA (also loads TIMA in the reload cycle)
     [] a = 65287 -> {65287, 65285}                                     \* TAC (an edge it causes may clock TIMA)
     [] a = 65296 -> {65296, 65318}                                     \* NR10 sweep
     [] a \in {65298, 65303, 65313} -> {a, 65318}                       \* NRx2: envelope, DAC
     [] a = 65306 -> {a, 65318} \cup Range(65328, 65343)                \* NR30: DAC (a stopped channel frees wave RAM)
     [] a \in {65300, 65305, 65315} -> {a, 65318}                       \* NRx4 trigger
     [] a = 65310 -> {a, 65318} \cup Range(65328, 65343)                \* NR34 trigger (wave RAM)
     [] a = 65318 -> Range(65296, 65318) \cup Range(65328, 65343)       \* NR52 power
     [] a >= 65328 /\ a <= 65343 -> Range(65328, 65343)                 \* wave RAM
     [] a = 65344 -> {65344, 65348, 65345}                              \* LCDC: LY, STAT
     [] a = 65350 -> {65350} \cup Range(65024, 65279)                   \* DMA: OAM
     [] OTHER -> {a}

\* the same relation as a predicate (no set construction: used on every diff of every recorded write)
In(b, lo, hi) == b >= lo /\ b <= hi
InFoot(kind, a, b) ==
   CASE a < 32768 -> In(b, 0, 32767) \/ In(b, 40960, 49151)
     [] a < 40960 -> b = a
     [] a < 49152 -> IF kind = "mbc2" THEN In(b, 40960, 49151) /\ b % 512 = a % 512 ELSE b = a
     [] a < 56832 -> b = a \/ b = a + 8192
     [] a < 57344 -> b = a
     [] a < 65024 -> b = a \/ b = a - 8192
     [] a < 65184 -> b = a
     [] a < 65280 -> FALSE
     [] a = 65284 -> b \in {65284, 65285}
     [] a = 65286 -> b \in {65286, 65285}
     [] a = 65287 -> b \in {65287, 65285}
     [] a = 65296 -> b \in {65296, 65318}
     [] a \in {65298, 65303, 65313} -> b \in {a, 65318}
     \* NR30 is channel 3's DAC: switching it off stops the channel, and a stopped channel gives wave RAM back to the CPU
     [] a = 65306 -> b \in {a, 65318} \/ In(b, 65328, 65343)
     [] a \in {65300, 65305, 65315} -> b \in {a, 65318}
     [] a = 65310 -> b \in {a, 65318} \/ In(b, 65328, 65343)
     [] a = 65318 -> In(b, 65296, 65318) \/ In(b, 65328, 65343)   \* power off also stops channel 3 (wave RAM readable again)
     [] a >= 65328 /\ a <= 65343 -> In(b, 65328, 65343)
     [] a = 65344 -> b \in {65344, 65348, 65345}
     [] a = 65350 -> b = 65350 \/ In(b, 65024, 65279)
     [] OTHER -> b = a
=============================================================================
