------------------------------ MODULE MBC_Trace ------------------------------
(* Leg B for C08 / C09 / C11: bus operations on a cartridge recorded through *)
(* the real Mapper, validated against MBC.                                   *)
(*                                                                           *)
(* reset = [kind, romBanks, ramBanks, timer(0/1)]  (what the harness built)   *)
(* events: ["w", addr, v]          write (0000-7FFF control, A000-BFFF RAM)  *)
(*         ["r", addr, v]          read, v as returned by Mapper.Read        *)
(*         ["dl", n]               length of the RAM dump                    *)
(*         ["d", index, v]         byte `index` of the RAM dump              *)
(*         ["panic", what]         the operation panicked (never accepted)   *)
EXTENDS MBC, TLC, Json, IOUtils, Sequences

Scens == ndJsonDeserialize(IOEnv.TRACE)
\* which property is being decided: C08 judges ROM window reads, C09 RAM window reads and the dump;
\* everything is tracked in both modes, only the judged observations differ
Mode == IF "MODE" \in DOMAIN IOEnv THEN IOEnv.MODE ELSE "ALL"
Does(m) == Mode = m \/ Mode = "ALL"

VARIABLES sc, l, st, ram, known
\* ram: cell -> byte for the cells in `known` (written, or read once: initial contents are not pinned)
vars == <<sc, l, st, ram, known>>

R == Scens[sc].reset
Kind == R[1]
RomBanks == R[2]
RamBanks == R[3]
Timer == R[4] = 1
Ev == Scens[sc].ev[l]

Init == /\ sc \in 1..Len(Scens) /\ l = 1
        /\ st = Reg0 /\ ram = <<>> /\ known = {}

\* header bytes 0147-0149 of page 0 are not part of the pattern
InPattern(bank, off) == ~(bank = 0 /\ off \in 327..329)

Stored(v) == IF Kind = "mbc2" THEN 240 + (v % 16) ELSE v

ReadStep(addr, v) ==
   IF addr < 16384
   THEN /\ Does("C08") => (InPattern(LowBank(Kind, st, RomBanks), addr) => v = Sig(LowBank(Kind, st, RomBanks), addr))
        /\ UNCHANGED <<st, ram, known>>
   ELSE IF addr < 32768
   THEN /\ Does("C08") => v = Sig(HighBank(Kind, st, RomBanks), addr - 16384)
        /\ UNCHANGED <<st, ram, known>>
   ELSE LET t == RamTarget(Kind, st, RamBanks, Timer, addr) IN
        CASE t[1] = "off"  -> (Does("C09") => v = 255) /\ UNCHANGED <<st, ram, known>>
          [] t[1] = "ram"  -> IF t[2] \in known
                              THEN (Does("C09") => v = ram[t[2]]) /\ UNCHANGED <<st, ram, known>>
                              ELSE \* first sight of a never-written cell defines it (MBC2: upper nibble reads 1)
                                   /\ (Does("C09") /\ Kind = "mbc2") => v >= 240
                                   /\ known' = known \cup {t[2]}
                                   /\ ram' = [c \in known' |-> IF c = t[2] THEN v ELSE ram[c]]
                                   /\ UNCHANGED st
          [] OTHER         -> UNCHANGED <<st, ram, known>>      \* rtc / free

WriteStep(addr, v) ==
   IF addr < 32768
   THEN st' = CtlWrite(Kind, st, addr, v) /\ UNCHANGED <<ram, known>>
   ELSE LET t == RamTarget(Kind, st, RamBanks, Timer, addr) IN
        IF t[1] = "ram"
        THEN /\ known' = known \cup {t[2]}
             /\ ram' = [c \in known' |-> IF c = t[2] THEN Stored(v) ELSE ram[c]]
             /\ UNCHANGED st
        ELSE UNCHANGED <<st, ram, known>>

DumpLen(n) == (Does("C09") => n = (CASE Kind = "none" -> 0 [] Kind = "mbc2" -> 512 [] OTHER -> RamBanks * 8192))
              /\ UNCHANGED <<st, ram, known>>

DumpByte(i, v) ==
   /\ IF i \in known
      THEN Does("C09") => (IF Kind = "mbc2" THEN v % 16 = ram[i] % 16 ELSE v = ram[i])
      ELSE TRUE
   /\ UNCHANGED <<st, ram, known>>

Next == /\ l <= Len(Scens[sc].ev) /\ l' = l + 1 /\ UNCHANGED sc
        /\ LET e == Ev IN
           CASE e[1] = "w"  -> WriteStep(e[2], e[3])
             [] e[1] = "r"  -> ReadStep(e[2], e[3])
             [] e[1] = "dl" -> DumpLen(e[2])
             [] e[1] = "d"  -> DumpByte(e[2], e[3])
             [] OTHER       -> FALSE        \* "panic": no action of the specification matches a crash

Spec == Init /\ [][Next]_vars
Done == (l = Len(Scens[sc].ev) + 1) => PrintT(<<"ACCEPT", Scens[sc].id>>)
Prog == PrintT(<<"AT", Scens[sc].id, l, st.ramg, st.bank1, st.bank2, st.mode, st.romb, st.ramb>>)
=============================================================================
