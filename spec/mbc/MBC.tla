--------------------------------- MODULE MBC ---------------------------------
(* Cartridge controllers: ROM-only, MBC1, MBC2, MBC3, MBC5.                   *)
(* Properties C08 (ROM banking), C09 (RAM gating / banking / retention) and  *)
(* the totality part of C11.                                                 *)
(*                                                                           *)
(* The register file is a record; the functions below give its successor    *)
(* for a control write and the banks / RAM cell a read or write addresses.  *)
(* They are used by the model-checking module (complete register state      *)
(* graph) and by the trace specification.                                   *)
EXTENDS Integers, Bitwise

Kinds == {"none", "mbc1", "mbc2", "mbc3", "mbc5"}

\* power-on register values
Reg0 == [ramg |-> FALSE, bank1 |-> 1, bank2 |-> 0, mode |-> 0, romb |-> 1, ramb |-> 0]

LowNibbleA(v) == v % 16 = 10
ZeroToOne(x) == IF x = 0 THEN 1 ELSE x

\* a write to 0000-7FFF
CtlWrite(kind, st, addr, v) ==
   CASE kind = "none" -> st
     [] kind = "mbc1" ->
          (CASE addr < 8192  -> [st EXCEPT !.ramg = LowNibbleA(v)]
             [] addr < 16384 -> [st EXCEPT !.bank1 = ZeroToOne(v % 32)]
             [] addr < 24576 -> [st EXCEPT !.bank2 = v % 4]
             [] OTHER        -> [st EXCEPT !.mode = v % 2])
     [] kind = "mbc2" ->
          IF addr >= 16384 THEN st
          ELSE IF (addr \div 256) % 2 = 0 THEN [st EXCEPT !.ramg = LowNibbleA(v)]
          ELSE [st EXCEPT !.romb = ZeroToOne(v % 16)]
     [] kind = "mbc3" ->
          (CASE addr < 8192  -> [st EXCEPT !.ramg = LowNibbleA(v)]
             [] addr < 16384 -> [st EXCEPT !.romb = ZeroToOne(v % 128)]
             [] addr < 24576 -> [st EXCEPT !.ramb = v % 16]
             [] OTHER        -> st)                       \* clock latch: RTC module
     [] kind = "mbc5" ->
          (CASE addr < 8192  -> [st EXCEPT !.ramg = LowNibbleA(v)]
             [] addr < 12288 -> [st EXCEPT !.romb = (@ \div 256) * 256 + v]
             [] addr < 16384 -> [st EXCEPT !.romb = (v % 2) * 256 + (@ % 256)]
             [] addr < 24576 -> [st EXCEPT !.ramb = v % 16]
             [] OTHER        -> st)

\* ROM bank visible at 0000-3FFF / 4000-7FFF (reduced modulo the ROM size)
LowBank(kind, st, romBanks) ==
   IF kind = "mbc1" /\ st.mode = 1 THEN (st.bank2 * 32) % romBanks ELSE 0
HighBank(kind, st, romBanks) ==
   CASE kind = "none" -> 1
     [] kind = "mbc1" -> (st.bank2 * 32 + st.bank1) % romBanks
     [] OTHER         -> st.romb % romBanks

\* what A000-BFFF addresses: <<"off">> disabled / absent (reads FF, writes ignored), <<"ram", cell>>,
\* <<"rtc", reg>> (MBC3 clock registers: RTC module), <<"free">> (not covered by the statement)
RamTarget(kind, st, ramBanks, timer, addr) ==
   LET off == addr - 40960 IN
   CASE kind = "none" -> <<"off">>
     [] ~st.ramg      -> <<"off">>
     [] kind = "mbc1" -> <<"ram", ((IF st.mode = 1 THEN st.bank2 ELSE 0) % ramBanks) * 8192 + off>>
     [] kind = "mbc2" -> <<"ram", off % 512>>
     [] kind = "mbc3" -> IF st.ramb < 8 THEN <<"ram", (st.ramb % ramBanks) * 8192 + off>>
                         ELSE IF st.ramb <= 12 /\ timer THEN <<"rtc", st.ramb>>
                         ELSE <<"free">>
     [] kind = "mbc5" -> <<"ram", (st.ramb % ramBanks) * 8192 + off>>

\* the test pattern of the ROM images built by the harness (machine.Sig): offset `off` of 16 KiB page `p`
Sig(p, off) ==
   CASE off % 4 = 0 -> p % 256
     [] off % 4 = 1 -> (p \div 256) + 64
     [] off % 4 = 2 -> (off \div 4) % 256
     [] OTHER       -> ((off \div 1024) % 256) ^^ 165

\* number of 8 KiB RAM banks for a declared RAM-size byte (a single bank when none is declared)
RamBanksOf(kind, ramSize) ==
   IF kind = "mbc2" THEN 1
   ELSE CASE ramSize = 3 -> 4 [] ramSize = 4 -> 16 [] ramSize = 5 -> 8 [] OTHER -> 1
=============================================================================
