SPECIFICATION Spec
INVARIANTS BanksInRange LowWindowIsBank0UnlessMbc1Mode1 Mbc1NoBank00_20_40_60 ZeroRemap DisabledAddressesNothing TargetInRange RomOnlyHasNoRam
PROPERTIES ControlWritesPreserveRam BanksIndependent
CHECK_DEADLOCK TRUE
VIEW mview
