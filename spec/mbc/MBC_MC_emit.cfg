SPECIFICATION Spec
INVARIANTS Emit
CHECK_DEADLOCK TRUE
VIEW mview
