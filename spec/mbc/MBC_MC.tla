------------------------------- MODULE MBC_MC -------------------------------
(* Leg A for C08/C09: the complete register state graph of one controller   *)
(* kind under every control write (address class x all 256 values), with a  *)
(* small abstract RAM (two offsets per bank) to check gating, banking and    *)
(* retention. Kind and sizes come from the environment.                      *)
EXTENDS MBC, TLC, IOUtils, FiniteSets

Kind == IOEnv.KIND
RomBanks == atoi(IOEnv.ROMBANKS)
RamBanks == atoi(IOEnv.RAMBANKS)

VARIABLES st, ram, lastw
mvars == <<st, ram, lastw>>
mview == <<st, ram>>

\* MODE=regs: all 256 values on every control region, RAM not modelled (the complete register graph)
\* MODE=ram : a few control values, one abstract cell per bank and per end of the window
RegsOnly == IOEnv.MODE = "regs"
Offs == IF RegsOnly THEN {0} ELSE {0, 8191}
Cells == {b * 8192 + o : b \in 0..(RamBanks - 1), o \in Offs}
Vals == {17}
CtlVals == IF RegsOnly THEN 0..255 ELSE {0, 1, 2, 3, 10, 26, 33, 255}

\* one representative address per control region (MBC2: A8 clear / set)
CtlAddrs == IF Kind = "mbc2" THEN {0, 256, 16127, 16383, 16384} ELSE {0, 8191, 8192, 12287, 12288, 16383, 16384, 24575, 24576, 32767}

Init == st = Reg0 /\ ram = [c \in Cells |-> 0] /\ lastw = <<>>

Ctl == \E a \in CtlAddrs, v \in CtlVals :
          /\ st' = CtlWrite(Kind, st, a, v)
          /\ UNCHANGED ram /\ lastw' = <<"ctl", a, v>>

RamWrite == ~RegsOnly /\ \E o \in Offs, v \in Vals :
          LET t == RamTarget(Kind, st, RamBanks, FALSE, 40960 + o) IN
          /\ ram' = IF t[1] = "ram" /\ t[2] \in Cells THEN [ram EXCEPT ![t[2]] = v] ELSE ram
          /\ UNCHANGED st /\ lastw' = <<"ram", o, v>>

Next == Ctl \/ RamWrite
Spec == Init /\ [][Next]_mvars

(* ------------------------------- leg C ---------------------------------- *)
(* One test per (register state, control write) of the graph above: the     *)
(* banks the two ROM windows show and what A000-BFFF addresses afterwards.   *)
(* The harness puts the real controller into the source state by the         *)
(* canonical writes, performs the write and probes the windows. To keep the  *)
(* output finite in the large graphs only boundary bank numbers and          *)
(* boundary written values are emitted.                                      *)
Emitting == "EMIT" \in DOMAIN IOEnv /\ IOEnv.EMIT = "1"
EmitVals == {0, 1, 2, 3, 10, 15, 16, 26, 31, 32, 33, 63, 64, 96, 127, 128, 255}
BoundaryBanks == {0, 1, 2, 3, 15, 16, 17, 31, 32, 33, 63, 64, 65, 127, 128, 255, 256, 257, 511}
EmitState == st.romb \in BoundaryBanks /\ st.ramb \in {0, 1, 2, 3, 7, 8, 12, 13, 15}
ProbeAddr == 40965
EmitAll == \A a \in CtlAddrs, v \in EmitVals :
              LET n == CtlWrite(Kind, st, a, v) IN
              PrintT(<<"T", IF st.ramg THEN 1 ELSE 0, st.bank1, st.bank2, st.mode, st.romb, st.ramb, a, v,
                       LowBank(Kind, n, RomBanks), HighBank(Kind, n, RomBanks), RamTarget(Kind, n, RamBanks, FALSE, ProbeAddr)>>)
Emit == (Emitting /\ EmitState) => EmitAll

(* ------------------------------- C08 ------------------------------------ *)
BanksInRange == /\ LowBank(Kind, st, RomBanks) \in 0..(RomBanks - 1)
                /\ HighBank(Kind, st, RomBanks) \in 0..(RomBanks - 1)
LowWindowIsBank0UnlessMbc1Mode1 == (LowBank(Kind, st, RomBanks) # 0) => (Kind = "mbc1" /\ st.mode = 1)
\* MBC1 never maps banks 00/20/40/60 into the high window when the ROM is large enough to tell
Mbc1NoBank00_20_40_60 == (Kind = "mbc1" /\ RomBanks = 128) => HighBank(Kind, st, RomBanks) % 32 # 0
\* MBC2/MBC3 never map bank 0 high (0 -> 1 remap) when the ROM has more than one bank pair; MBC5 may
ZeroRemap == (Kind \in {"mbc2", "mbc3"} /\ RomBanks >= 16) => (st.romb # 0)
Mbc5Reaches0 == TRUE
(* ------------------------------- C09 ------------------------------------ *)
\* control writes never change RAM contents
ControlWritesPreserveRam == [][(lastw'[1] = "ctl") => ram' = ram]_mvars
\* while disabled nothing is addressed
DisabledAddressesNothing == (~st.ramg) => \A o \in Offs : RamTarget(Kind, st, RamBanks, FALSE, 40960 + o) = <<"off">>
\* a RAM write changes at most the addressed cell of the selected bank
BanksIndependent == [][(lastw'[1] = "ram") => \A c \in Cells : (ram'[c] # ram[c]) =>
                          RamTarget(Kind, st, RamBanks, FALSE, 40960 + lastw'[2]) = <<"ram", c>>]_mvars
TargetInRange == \A o \in Offs : LET t == RamTarget(Kind, st, RamBanks, FALSE, 40960 + o) IN
                    t[1] = "ram" => (IF Kind = "mbc2" THEN t[2] \in 0..511 ELSE t[2] \in 0..(RamBanks * 8192 - 1))
RomOnlyHasNoRam == Kind = "none" => \A o \in Offs : RamTarget(Kind, st, RamBanks, FALSE, 40960 + o) = <<"off">>
=============================================================================
