------------------------------ MODULE Int_Trace ------------------------------
(* Leg B for C04/C05: units of execution (boundary to boundary) recorded    *)
(* from the real CPU with interrupt requests raised by the harness at       *)
(* chosen machine-cycle offsets. The harness does not say whether a unit    *)
(* was an instruction, a dispatch or an idle cycle: the specification       *)
(* decides from its own control state which one it had to be.               *)
(*                                                                          *)
(* reset = [ime, ie, if]                                                    *)
(* event = [pre, [op,b1,b2], bus, post, n, iePost, ifPost, raises]          *)
(*   pre/post = [a,f,b,c,d,e,h,l,sp,pc]; [op,b1,b2] = the bytes at pre.pc;  *)
(*   bus = [[cycle, rw, addr, val]..] accesses the CPU made; n = cycles;    *)
(*   raises = [[k, bit]..]: request `bit` raised by the harness after cycle *)
(*   k of this unit (k = 0: before its first cycle).                        *)
(*   keys = [k..]: a key event (ButtonAction + the CPU's input callback, as *)
(*   the display does) after cycle k. A key event is not a request by       *)
(*   itself; an implementation may turn it into a joypad request (bit 4),   *)
(*   which the observed IF then shows.                                      *)
EXTENDS IntCtl, SM83, TLC, Json, IOUtils

Scens == ndJsonDeserialize(IOEnv.TRACE)
\* MODE: "CTL" (default) judges what C04/C05 state; on program traces of ROMs "C01"/"C02"/"C03" additionally judge
\* the instruction's effect / cycle count / access timing against SM83!Exec, like Cpu_Trace does for isolated instructions
Mode == IF "MODE" \in DOMAIN IOEnv THEN IOEnv.MODE ELSE "CTL"

VARIABLES sc, l, st,
          lenient   \* the execution has entered a situation the statement does not cover: the rest of the scenario is not judged
vars == <<sc, l, st, lenient>>

Ev == Scens[sc].ev[l]

Bits(x) == {b \in 0..4 : (x \div (2^b)) % 2 = 1}
Regs(s) == [a |-> s[1], f |-> s[2], b |-> s[3], c |-> s[4], d |-> s[5], e |-> s[6], h |-> s[7], l |-> s[8], sp |-> s[9], pc |-> s[10]]

Init == /\ sc \in 1..Len(Scens) /\ l = 1
        /\ LET r == Scens[sc].reset IN
           IF Len(r) >= 8
           THEN \* a window into a running program: whether an EI is in flight is not observable, TLC infers it
                \E d \in BOOLEAN :
                   st = [ime |-> r[1] = 1, eiDelay |-> d /\ r[1] # 1, halted |-> r[7] = 1, haltBug |-> r[8] = 1, ie |-> Bits(r[2]), iflg |-> Bits(r[3])]
           ELSE st = [ime |-> r[1] = 1, eiDelay |-> FALSE, halted |-> FALSE, haltBug |-> FALSE, ie |-> Bits(r[2]), iflg |-> Bits(r[3])]
        /\ lenient = FALSE

Pre(e) == Regs(e[1])
Ob(e) == e[2]
Bus(e) == e[3]
Post(e) == Regs(e[4])
N(e) == e[5]
Raises(e) == e[8]
Keys(e) == IF Len(e) >= 9 THEN e[9] ELSE <<>>
KeyAt(e, k) == \E i \in 1..Len(Keys(e)) : Keys(e)[i] = k
\* does the observed IF show a joypad request that nothing else explains?
JoypadSeen(e) == 4 \in Bits(e[7]) /\ Len(Keys(e)) > 0
RaisedAt(e, k) == {Raises(e)[i][2] : i \in {j \in 1..Len(Raises(e)) : Raises(e)[j][1] = k}}
                  \cup (IF KeyAt(e, k) /\ JoypadSeen(e) THEN {4} ELSE {})
RaisedUpTo(e, k) == UNION {RaisedAt(e, j) : j \in 0..k}

\* IF and IE after a unit of n cycles: CPU writes to FF0F / FFFF (from the bus log) and raises, in cycle order
RECURSIVE Fold(_, _, _, _)
Fold(s, e, c, n) ==
   IF c > n THEN s
   ELSE LET W(addr) == {i \in 1..Len(Bus(e)) : Bus(e)[i][1] = c /\ Bus(e)[i][2] = 1 /\ Bus(e)[i][3] = addr}
            s1 == IF W(65295) # {} THEN [s EXCEPT !.iflg = Bits(Bus(e)[CHOOSE i \in W(65295) : TRUE][4])] ELSE s
            s2 == IF W(65535) # {} THEN [s1 EXCEPT !.ie = Bits(Bus(e)[CHOOSE i \in W(65535) : TRUE][4])] ELSE s1
        IN Fold([s2 EXCEPT !.iflg = @ \cup RaisedAt(e, c)], e, c + 1, n)

Observed(e, s) == s.ie = Bits(e[6]) /\ s.iflg = Bits(e[7])

SameRegsExceptPcSp(e) == [Post(e) EXCEPT !.pc = 0, !.sp = 0] = [Pre(e) EXCEPT !.pc = 0, !.sp = 0]

PushEffect(s, W) ==
   LET ieW == {w \in W : w[1] = 65535}  ifW == {w \in W : w[1] = 65295}
       s1 == IF ieW = {} THEN s ELSE [s EXCEPT !.ie = Bits((CHOOSE w \in ieW : TRUE)[2])]
   IN IF ifW = {} THEN s1 ELSE [s1 EXCEPT !.iflg = Bits((CHOOSE w \in ifW : TRUE)[2])]

DispatchStep(e, s0) ==
   LET n == DispatchCycles(s0)
       sAll == [s0 EXCEPT !.iflg = @ \cup RaisedUpTo(e, n)]
       \* the request that was highest at the boundary, or (if another one arrived meanwhile) the one highest when the vector is chosen
       cand == {Lowest(Pending(s0)), Lowest(Pending([s0 EXCEPT !.iflg = @ \cup RaisedUpTo(e, n - 1)]))}
       pre == Pre(e)
       W == {<<Bus(e)[i][3], Bus(e)[i][4]>> : i \in {j \in 1..Len(Bus(e)) : Bus(e)[j][2] = 1}}
   IN /\ N(e) = n                                                  \* 5 cycles, 6 out of HALT
      /\ \E b \in cand :
           /\ Post(e).pc = Vector(b)
           \* IME cleared, exactly that IF bit cleared - and then the two pushes, should the stack pointer make them land
           \* on IE (FFFF) or IF (FF0F): the interrupt was chosen before they happen
           /\ st' = PushEffect(AfterDispatch(sAll, b), W)
      /\ Post(e).sp = W16(pre.sp + 65534)
      /\ W = {<<W16(pre.sp + 65535), Hi(pre.pc)>>, <<W16(pre.sp + 65534), Lo(pre.pc)>>}   \* pushes the address of the next instruction
      /\ SameRegsExceptPcSp(e)
      /\ Observed(e, st')

IdleStep(e, s0) ==
   /\ N(e) = 1 /\ Post(e) = Pre(e) /\ Len(Bus(e)) = 0
   /\ st' = [s0 EXCEPT !.iflg = @ \cup RaisedUpTo(e, 1)]
   /\ Observed(e, st')

WakeStep(e, s0) ==
   /\ N(e) \in 0..2 /\ Post(e) = Pre(e) /\ Len(Bus(e)) = 0
   /\ st' = [AfterWake(s0) EXCEPT !.iflg = @ \cup RaisedUpTo(e, N(e))]
   /\ Observed(e, st')

\* a unit recorded from a ROM may be outside the instruction-level precondition (its data addresses overlap its own
\* bytes; STOP): then only the control state is followed
Judged(e) == IF Len(e) >= 10 THEN e[10] = 1 ELSE TRUE
\* the data accesses of the bus log: everything but the reads of the instruction's own bytes
DataAcc(e, pre, op) ==
   LET fetch == {W16(pre.pc + k) : k \in 0..(ILen(op) - 1)}  bus == Bus(e) IN
   {<<bus[i][1], bus[i][2], bus[i][3], bus[i][4]>> : i \in {j \in 1..Len(bus) : ~(bus[j][2] = 0 /\ bus[j][3] \in fetch)}}

IKindOf(op) == CASE op = 251 -> "ei" [] op = 243 -> "di" [] op = 217 -> "reti" [] op = 118 -> "halt" [] OTHER -> "other"

InstrStep(e, s0) ==
   LET pre0 == Pre(e)
       op == Ob(e)[1]
       \* halt bug: the opcode fetch did not advance PC, so the byte after HALT is read twice
       pre == IF s0.haltBug THEN [pre0 EXCEPT !.pc = W16(pre0.pc + 65535)] ELSE pre0
       b1 == IF s0.haltBug THEN op ELSE Ob(e)[2]
       b2 == IF s0.haltBug THEN Ob(e)[2] ELSE Ob(e)[3]
       bus == Bus(e)
       M(addr) == LET S == {i \in 1..Len(bus) : bus[i][2] = 0 /\ bus[i][3] = addr} IN
                  IF S = {} THEN 0 - 1 ELSE bus[CHOOSE i \in S : TRUE][4]
       res == Exec(pre, op, b1, b2, M)
       ik == IKindOf(op)
       s1 == AfterInstr(s0, ik, {})
       free == (s0.haltBug /\ op \in {203, 118}) \/ HaltAfterEiIsFree(s0, ik)
   IN /\ (Judged(e) => (op \notin Undefined /\ op # 16))
      /\ lenient' = (free \/ op = 16)
      /\ IF free \/ op = 16
         THEN \* halt bug followed by the CB prefix or another HALT, or EI directly followed by HALT: not covered by the statement
              /\ st' = st
              \* ... except that the doubled byte costs exactly one PC increment: after HALT (bug); CB xx the PC is one past the
              \* CB byte whichever way the pair is decoded (CB CB on hardware, CB xx here), and the stack pointer is untouched
              /\ (s0.haltBug /\ op = 203 /\ Judged(e) => Post(e).pc = W16(pre0.pc + 1) /\ Post(e).sp = pre0.sp)
         ELSE /\ (Judged(e) => (Post(e).pc = res.r.pc /\ Post(e).sp = res.r.sp))       \* control flow of the instruction itself
              /\ (s0.haltBug /\ Judged(e) => res.r = Post(e))                        \* the doubly-read byte shows in the registers
              /\ (Judged(e) /\ Mode = "C01" => /\ res.r = Post(e) /\ res.r.f % 16 = 0
                                               /\ {<<a[2], a[3], a[4]>> : a \in res.acc} = {<<a[2], a[3], a[4]>> : a \in DataAcc(e, pre0, op)})
              /\ (Judged(e) /\ Mode = "C02" => N(e) = res.n)
              /\ (Judged(e) /\ Mode = "C03" => {<<a[1], a[2], a[3]>> : a \in res.acc} = {<<a[1], a[2], a[3]>> : a \in DataAcc(e, pre0, op)})
              /\ st' = Fold(s1, e, 1, N(e))
              /\ Observed(e, st')

Next == /\ l <= Len(Scens[sc].ev) /\ l' = l + 1 /\ UNCHANGED sc
        /\ N(Ev) # 99                                    \* the harness writes 99 cycles for a unit in which the emulator panicked
        /\ IF lenient THEN UNCHANGED <<st, lenient>> ELSE
           LET e == Ev
               s0 == [st EXCEPT !.iflg = @ \cup RaisedAt(e, 0)]
               k == UnitKind(s0)
           IN CASE k = "dispatch" -> DispatchStep(e, s0) /\ UNCHANGED lenient
                [] k = "idle"     -> IdleStep(e, s0) /\ UNCHANGED lenient
                [] k = "wake"     -> (WakeStep(e, s0) /\ UNCHANGED lenient) \/ InstrStep(e, AfterWake(s0))   \* wake-up latency 0..2 cycles
                [] k = "instr"    -> InstrStep(e, s0)

Spec == Init /\ [][Next]_vars
Done == (l = Len(Scens[sc].ev) + 1) => PrintT(<<"ACCEPT", Scens[sc].id>>)
Prog == PrintT(<<"AT", Scens[sc].id, l, UnitKind(st), st.ime, st.eiDelay, st.halted, st.haltBug, st.ie, st.iflg>>)
=============================================================================
