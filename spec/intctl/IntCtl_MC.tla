------------------------------ MODULE IntCtl_MC ------------------------------
(* Leg A for C04/C05: the closed system "CPU executing an arbitrary program *)
(* of control-relevant instructions, requests raised at arbitrary times",   *)
(* explored exhaustively; the listed properties are stated over the history *)
(* of the last two units.                                                   *)
EXTENDS IntCtl, TLC, Sequences, IOUtils

VARIABLES st,     \* control state
          last,   \* the last unit: [kind, ikind, b, pre]
          prev,   \* the one before
          steps

mvars == <<st, last, prev, steps>>
MaxSteps == IF "DEPTH" \in DOMAIN IOEnv THEN atoi(IOEnv.DEPTH) ELSE 6
NoUnit == [kind |-> "none", ikind |-> "none", b |-> 0 - 1, pre |-> [ime |-> FALSE, eiDelay |-> FALSE, halted |-> FALSE, haltBug |-> FALSE, ie |-> {}, iflg |-> {}]]

SrcM == 0..2     \* three sources are enough to exercise priorities

Init == /\ st \in [ime : BOOLEAN, eiDelay : {FALSE}, halted : {FALSE}, haltBug : {FALSE}, ie : SUBSET SrcM, iflg : SUBSET SrcM]
        /\ last = NoUnit /\ prev = NoUnit /\ steps = 0

IKinds == {"ei", "di", "reti", "halt", "wif", "wie", "other"}

Unit ==
   /\ steps < MaxSteps /\ steps' = steps + 1
   /\ prev' = last
   /\ LET k == UnitKind(st) IN
      CASE k = "dispatch" ->
             LET b == Lowest(Pending(st)) IN
             /\ st' = AfterDispatch(st, b)
             /\ last' = [kind |-> "dispatch", ikind |-> "none", b |-> b, pre |-> st]
        [] k = "idle" -> /\ st' = st /\ last' = [kind |-> "idle", ikind |-> "none", b |-> 0 - 1, pre |-> st]
        [] k = "wake" -> /\ st' = AfterWake(st) /\ last' = [kind |-> "wake", ikind |-> "none", b |-> 0 - 1, pre |-> st]
        [] k = "instr" ->
             \E ik \in IKinds : \E v \in SUBSET SrcM :
                /\ (ik \notin {"wif", "wie"}) => v = {}
                /\ ~HaltAfterEiIsFree(st, ik)
                /\ st' = AfterInstr(st, ik, v)
                /\ last' = [kind |-> "instr", ikind |-> ik, b |-> 0 - 1, pre |-> st]

Raise == /\ \E b \in SrcM : b \notin st.iflg /\ st' = [st EXCEPT !.iflg = @ \cup {b}]
         /\ UNCHANGED <<last, prev, steps>>

Next == Unit \/ Raise
Spec == Init /\ [][Next]_mvars
FairSpec == Spec /\ WF_mvars(Unit)

(* ------------------------------- C04 ------------------------------------ *)
\* a dispatch happens only when IME was set and something enabled was requested ...
DispatchOnlyWhenAllowed == last.kind = "dispatch" => (last.pre.ime /\ Pending(last.pre) # {})
\* ... and it is mandatory then (no instruction executes with IME set and a pending request)
DispatchMandatory == last.kind = "instr" => ~(last.pre.ime /\ Pending(last.pre) # {})
\* the highest-priority (lowest-numbered) pending request is taken, exactly its IF bit is cleared, IME is cleared
PriorityAndClear == last.kind = "dispatch" =>
   /\ \A c \in Pending(last.pre) : last.b <= c
   /\ last.b \in Pending(last.pre)
DispatchClearsIme == [][last'.kind = "dispatch" /\ steps' = steps + 1 => (~st'.ime /\ st'.iflg = st.iflg \ {last'.b} /\ st'.ie = st.ie)]_mvars
\* instructions other than writes to IF do not touch IF
InstrLeavesIF == [][(steps' = steps + 1 /\ last'.kind = "instr" /\ last'.ikind # "wif") => st'.iflg = st.iflg]_mvars
\* EI: nothing is dispatched between EI and the completion of its successor (unless IME was already set)
EiDelaysOneInstruction == (last.kind = "dispatch" /\ prev.kind = "instr" /\ prev.ikind = "ei") => (prev.pre.ime \/ prev.pre.eiDelay)
\* ... and after the successor IME is on
EiTakesEffectAfterSuccessor ==
   (prev.kind = "instr" /\ prev.ikind = "ei" /\ last.kind = "instr" /\ last.ikind \notin {"di", "halt"}) => st.ime
\* DI immediately, RETI immediately
DiImmediate == (last.kind = "instr" /\ last.ikind = "di") => (~st.ime /\ ~st.eiDelay)
RetiImmediate == (last.kind = "instr" /\ last.ikind = "reti") => st.ime
NoDispatchAfterDi == (last.kind = "dispatch") => ~(prev.kind = "instr" /\ prev.ikind = "di")

(* ------------------------------- C05 ------------------------------------ *)
\* while halted no instruction executes
NoInstrWhileHalted == last.kind = "instr" => ~last.pre.halted
\* HALT with IME set idles; the wake-up is a dispatch
HaltedImeWakesByDispatch == (last.pre.halted /\ last.pre.ime /\ last.kind # "idle") => last.kind = "dispatch"
\* HALT with IME clear: wake-up without dispatching or clearing the request
HaltedNoImeWakesWithoutClearing == [][(steps' = steps + 1 /\ last'.kind = "wake") => (st'.iflg = st.iflg /\ st'.ime = st.ime /\ ~st'.halted)]_mvars
IdleOnlyWhenNothingPending == last.kind = "idle" => (last.pre.halted /\ Pending(last.pre) = {})
\* the halt bug arises exactly from HALT with IME clear and a request already pending
HaltBugExactly == st.haltBug <=> (last.kind = "instr" /\ last.ikind = "halt" /\ ~last.pre.ime /\ Pending(last.pre) # {})
HaltIdlesOtherwise == (last.kind = "instr" /\ last.ikind = "halt" /\ ~st.haltBug) => st.halted
\* liveness: a halted CPU with IME set and an enabled request eventually dispatches
HaltedEventuallyDispatches == (st.halted /\ st.ime /\ Pending(st) # {} /\ steps < MaxSteps) ~> (last.kind = "dispatch" \/ steps = MaxSteps)
=============================================================================
