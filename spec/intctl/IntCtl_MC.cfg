SPECIFICATION FairSpec
INVARIANTS DispatchOnlyWhenAllowed DispatchMandatory PriorityAndClear EiDelaysOneInstruction EiTakesEffectAfterSuccessor DiImmediate RetiImmediate NoDispatchAfterDi NoInstrWhileHalted HaltedImeWakesByDispatch IdleOnlyWhenNothingPending HaltBugExactly HaltIdlesOtherwise
PROPERTIES DispatchClearsIme InstrLeavesIF HaltedNoImeWakesWithoutClearing HaltedEventuallyDispatches
CHECK_DEADLOCK FALSE
