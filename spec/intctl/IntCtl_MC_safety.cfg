SPECIFICATION Spec
INVARIANTS DispatchOnlyWhenAllowed DispatchMandatory PriorityAndClear EiDelaysOneInstruction EiTakesEffectAfterSuccessor DiImmediate RetiImmediate NoDispatchAfterDi NoInstrWhileHalted HaltedImeWakesByDispatch IdleOnlyWhenNothingPending HaltBugExactly HaltIdlesOtherwise
PROPERTIES DispatchClearsIme InstrLeavesIF HaltedNoImeWakesWithoutClearing
CHECK_DEADLOCK FALSE
