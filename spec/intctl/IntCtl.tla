------------------------------- MODULE IntCtl -------------------------------
(* Interrupt control of the SM83: IME, the EI delay, HALT and the halt bug. *)
(* Properties C04 and C05.                                                  *)
(*                                                                          *)
(* The control state is a record                                            *)
(*   ime      master enable as it matters for dispatch                      *)
(*   eiDelay  EI was the previous instruction and IME was clear: IME becomes *)
(*            set once the next instruction has executed                    *)
(*   halted   the CPU idles (HALT)                                          *)
(*   haltBug  the next opcode fetch does not advance PC                     *)
(*   ie, iflg sets of interrupt numbers 0..4 (VBlank, STAT, Timer, Serial,  *)
(*            Joypad): enabled / requested                                  *)
(* and time advances in *units*: at every instruction boundary exactly one  *)
(* of Dispatch, Idle, Wake or Instr happens, decided by the state at the    *)
(* boundary. The functions below are used both by the closed model checked  *)
(* in IntCtl_MC and by the trace specification Int_Trace.                   *)
EXTENDS Integers, FiniteSets

Src == 0..4

Pending(st) == st.ie \cap st.iflg
CanDispatch(st) == st.ime /\ Pending(st) # {}
Lowest(S) == CHOOSE b \in S : \A c \in S : b <= c

\* which kind of unit happens at a boundary in state st
UnitKind(st) ==
   IF st.halted
   THEN IF Pending(st) = {} THEN "idle" ELSE IF st.ime THEN "dispatch" ELSE "wake"
   ELSE IF CanDispatch(st) THEN "dispatch" ELSE "instr"

\* cycles a dispatch takes: 5, one more out of HALT
DispatchCycles(st) == IF st.halted THEN 6 ELSE 5
Vector(b) == 64 + 8 * b

\* after dispatching interrupt b
AfterDispatch(st, b) ==
   [st EXCEPT !.ime = FALSE, !.eiDelay = FALSE, !.halted = FALSE, !.haltBug = FALSE, !.iflg = @ \ {b}]

AfterWake(st) == [st EXCEPT !.halted = FALSE]

\* IME after an ordinary instruction: a pending EI takes effect now
ImeAfter(st) == st.eiDelay \/ st.ime

\* after executing an instruction of the given control kind:
\*   "ei" "di" "reti" "halt" "wif" (write v to IF) "wie" (write v to IE) "other"
AfterInstr(st, kind, v) ==
   LET base == [st EXCEPT !.ime = ImeAfter(st), !.eiDelay = FALSE, !.haltBug = FALSE] IN
   CASE kind = "ei"   -> [base EXCEPT !.eiDelay = ~ImeAfter(st)]
     [] kind = "di"   -> [base EXCEPT !.ime = FALSE]
     [] kind = "reti" -> [base EXCEPT !.ime = TRUE]
     [] kind = "halt" -> IF st.ime \/ Pending(st) = {}
                         THEN [base EXCEPT !.halted = TRUE]
                         ELSE [base EXCEPT !.haltBug = TRUE]
     [] kind = "wif"  -> [base EXCEPT !.iflg = v]
     [] kind = "wie"  -> [base EXCEPT !.ie = v]
     [] OTHER         -> base

\* EI directly followed by HALT *with a request already pending* is not covered by the statement (is it the halt bug,
\* since the master enable is still clear when HALT executes, or a dispatch, since it is set right after?).
\* With nothing pending there is no such question: the enable takes effect after HALT, the CPU idles with it set and
\* the first enabled request is dispatched.
HaltAfterEiIsFree(st, kind) == kind = "halt" /\ st.eiDelay /\ Pending(st) # {}
=============================================================================
