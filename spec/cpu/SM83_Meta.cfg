SPECIFICATION Spec
