SPECIFICATION Spec
INVARIANTS FLowZero FrameOK PCAdvance CyclesMatchDoc PlanWellFormed RegsInRange
CHECK_DEADLOCK FALSE
