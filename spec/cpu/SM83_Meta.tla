------------------------------ MODULE SM83_Meta ------------------------------
(* Cross-check of the specification against an independent description of   *)
(* the instruction set: the repository's own table instruction_metadata.go  *)
(* (mnemonic, length, clock cycles, flag column; the emulator uses it for   *)
(* debug printing only). The driver dumps the table (`drv cpu meta`), this  *)
(* module checks, for every row,                                            *)
(*   length  = ILen                                                         *)
(*   cycles  = 4 x CyclesDoc (taken first, not taken second)                *)
(*   flags   : "-" the flag is unchanged by Exec, "0"/"1" it is reset/set,  *)
(*             a letter: it depends on the operands (not constrained)       *)
(* over a lattice of register, flag, operand and memory values.             *)
(* A disagreement is a defect of the specification or an erratum of the     *)
(* table - neither is a verdict about the emulator; it stops the check as   *)
(* an infrastructure error until it is understood.                          *)
EXTENDS SM83, TLC, Json, IOUtils, Sequences

Rows == ndJsonDeserialize(IOEnv.TRACE)[1].ev
N == Len(Rows)
Pfx(i) == Rows[i][1] = 1
Op(i) == Rows[i][2]
TLen(i) == Rows[i][3]
TCyc(i) == Rows[i][4]
TFlg(i) == Rows[i][5]

Flags16 == {16 * k : k \in 0..15}
Cyc(i, f) == IF Pfx(i) THEN 4 * CyclesDoc(203, Op(i), f) ELSE 4 * CyclesDoc(Op(i), 0, f)
CycSet(i) == {Cyc(i, f) : f \in Flags16}
Max(S) == CHOOSE x \in S : \A y \in S : y <= x
Min(S) == CHOOSE x \in S : \A y \in S : x <= y

Judged(i) == Pfx(i) \/ (Op(i) # 203 /\ Op(i) \notin Undefined)

ASSUME AllOpcodesPresent ==
   /\ \A o \in (0..255) \ Undefined : \E i \in 1..N : ~Pfx(i) /\ Op(i) = o
   /\ \A o \in 0..255 : \E i \in 1..N : Pfx(i) /\ Op(i) = o
   /\ \A i \in 1..N : ~Pfx(i) => Op(i) \notin Undefined

ASSUME LengthsAgree ==
   \A i \in 1..N : Judged(i) => TLen(i) = (IF Pfx(i) THEN 2 ELSE ILen(Op(i)))

ASSUME CyclesAgree ==
   \A i \in 1..N : Judged(i) =>
      IF Cardinality(CycSet(i)) = 1
      THEN TCyc(i) = <<Max(CycSet(i))>>
      ELSE TCyc(i) = <<Max(CycSet(i)), Min(CycSet(i))>>

\* the lattice of the flag check
LA == {0, 15, 128, 255}
LX == {0, 255}
LB == {1, 128, 255}
LM == {0, 255}
FBit(k) == CASE k = 1 -> 128 [] k = 2 -> 64 [] k = 3 -> 32 [] k = 4 -> 16
Has(f, k) == (f \div FBit(k)) % 2 = 1

FlagRowOK(i) ==
   \A a \in LA, x \in LX, f \in Flags16, b \in LB, mv \in LM :
      LET pre == [a |-> a, f |-> f, b |-> x, c |-> (x + 1) % 256, d |-> 255 - x, e |-> (x + 2) % 256,
                  h |-> 208, l |-> (x + 8) % 256, sp |-> 57088 + x, pc |-> 49152 + ((x * 31) % 4096)]
          M(addr) == (mv + addr * 7) % 256
          res == IF Pfx(i) THEN Exec(pre, 203, Op(i), b, M) ELSE Exec(pre, Op(i), b, 255 - b, M)
      IN \A k \in 1..4 :
            CASE TFlg(i)[k] = "-" -> Has(res.r.f, k) = Has(f, k)
              [] TFlg(i)[k] = "0" -> ~Has(res.r.f, k)
              [] TFlg(i)[k] = "1" -> Has(res.r.f, k)
              [] OTHER -> TRUE

ASSUME FlagColumnsAgree == \A i \in 1..N : Judged(i) => FlagRowOK(i)

VARIABLE x
Init == x = 0
Next == UNCHANGED x
Spec == Init /\ [][Next]_x
=============================================================================
