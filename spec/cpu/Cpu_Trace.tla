------------------------------ MODULE Cpu_Trace ------------------------------
(* Leg B for C01/C02/C03: units of execution recorded from the real CPU      *)
(* (cpu.ExecuteMachineCycle until the next instruction boundary) are         *)
(* validated against SM83!Exec. Events of one scenario are independent: the  *)
(* driver sets the registers before each of them.                            *)
(*                                                                           *)
(*  [1, pre, [op,b1,b2], bus, post, n, run, key, dma]                        *)
(*       dma: page of an OAM DMA started right before the unit (-1 none) -     *)
(*       like key it changes nothing for the instruction                       *)
(*       run: 1 halted + 2 stopped + 4 halt bug armed, after the unit;         *)
(*       key: a key event (CPU.OnInput) arrived after that machine cycle of    *)
(*       the unit (-1 none) - it changes nothing, so the spec ignores it       *)
(*       pre/post: [a,f,b,c,d,e,h,l,sp,pc]; bus: [[cycle, rw, addr, val]..]  *)
(*       as the CPU performed them through the mapper (reads carry the value *)
(*       the real decoder returned); n: machine cycles to the next boundary. *)
(*  [2, pre, [op,b1,b2], sched, snaps, post, n]                              *)
(*       perturbation family (C03 without trusting the bus hook): sched =    *)
(*       [[addr, [v1..v6]]..]: the harness put v_k at addr before cycle k;   *)
(*       snaps = [[addr, [s1..sn]]..]: what was at addr after cycle k.       *)
(*  [3, a, f, a2, f2]   a row of the repository's daa.csv                    *)
(*  [0, ...]            a unit outside the precondition (not judged)          *)
EXTENDS SM83, TLC, Json, IOUtils

Scens == ndJsonDeserialize(IOEnv.TRACE)

VARIABLES sc, l
vars == <<sc, l>>

Ev == Scens[sc].ev[l]

Regs(s) == [a |-> s[1], f |-> s[2], b |-> s[3], c |-> s[4], d |-> s[5], e |-> s[6], h |-> s[7], l |-> s[8], sp |-> s[9], pc |-> s[10]]

Init == sc \in 1..Len(Scens) /\ l = 1

Fetch(pre, op) == {W16(pre.pc + k) : k \in 0..(ILen(op) - 1)}

\* Which property is being decided: "C01" effect, "C02" cycle count, "C03" cycle of each data access.
\* Each mode checks only what its property states, so that a change breaking one of them does not
\* make the check of another one alarm.
Mode == IF "MODE" \in DOMAIN IOEnv THEN IOEnv.MODE ELSE "ALL"
Does(m) == Mode = m \/ Mode = "ALL"

\* kind 1: everything from the bus log
Check1(e) ==
  LET pre == Regs(e[2])
      op == e[3][1]  b1 == e[3][2]  b2 == e[3][3]
      bus == e[4]
      M(addr) == LET S == {i \in 1..Len(bus) : bus[i][2] = 0 /\ bus[i][3] = addr} IN
                 IF S = {} THEN 0 - 1 ELSE bus[CHOOSE i \in S : TRUE][4]
      fetch == Fetch(pre, op)
      data == {<<bus[i][1], bus[i][2], bus[i][3], bus[i][4]>> : i \in {j \in 1..Len(bus) : ~(bus[j][2] = 0 /\ bus[j][3] \in fetch)}}
      res == Exec(pre, op, b1, b2, M)
  IN IF op = 16
     THEN \* STOP: registers, flags and memory unchanged; PC and the stopped state are not constrained
          LET post == Regs(e[5]) IN
          Does("C01") => /\ [post EXCEPT !.pc = 0] = [pre EXCEPT !.pc = 0]
                         /\ \A i \in 1..Len(bus) : bus[i][2] = 0
     ELSE /\ Does("C01") =>
               /\ res.r = Regs(e[5])                                         \* registers, flags, PC
               /\ res.r.f % 16 = 0
               /\ {<<a[2], a[3], a[4]>> : a \in res.acc} = {<<a[2], a[3], a[4]>> : a \in data}   \* memory read / written, whenever
          /\ Does("C02") =>
               /\ e[6] = CyclesDoc(op, IF op = 203 THEN b1 ELSE 0, pre.f)   \* machine cycles to the next boundary
               /\ e[6] = res.n
          \* the CPU goes on fetching: only HALT (IME clear and nothing pending in these units) leaves it idle
          /\ (Len(e) >= 7 /\ (Does("C01") \/ Does("C02"))) => e[7] = (IF op = 118 THEN 1 ELSE 0)
          /\ Does("C03") =>
               {<<a[1], a[2], a[3]>> : a \in res.acc} = {<<a[1], a[2], a[3]>> : a \in data}      \* the cycle of every data access

\* kind 2: memory is a function of (address, cycle) chosen by the harness; the bus hook is not used
Check2(e) ==
  LET pre == Regs(e[2])
      op == e[3][1]  b1 == e[3][2]  b2 == e[3][3]
      sched == e[4]  snaps == e[5]
      n == e[7]
      SIdx(addr) == CHOOSE i \in 1..Len(sched) : sched[i][1] = addr
      Has(addr) == \E i \in 1..Len(sched) : sched[i][1] = addr
      \* pass 1: which address is read in which cycle does not depend on the data
      plan == Exec(pre, op, b1, b2, LAMBDA a : 0).acc
      reads == {p \in plan : p[2] = 0}
      RdAddrs == {p[3] : p \in reads}
      DocCycle == [a \in RdAddrs |-> (CHOOSE p \in reads : p[3] = a)[1]]
      \* the registers that result if address a is read in cycle cyc[a]
      Result(cyc) == Exec(pre, op, b1, b2, LAMBDA a : IF a \in RdAddrs /\ Has(a) THEN sched[SIdx(a)][2][cyc[a]] ELSE 0 - 1)
      post == Regs(e[6])
      res == Result(DocCycle)
      writes == {p \in res.acc : p[2] = 1}
      Changed(i) == {k \in 1..Len(snaps[i][2]) : snaps[i][2][k] # sched[SIdx(snaps[i][1])][2][k]}
      Planned(i) == {p[1] : p \in {q \in writes : q[3] = snaps[i][1]}}
  IN /\ \A p \in plan : Has(p[3])
     /\ Does("C01") => /\ res.r = post
                       /\ \A i \in 1..Len(snaps) : \A k \in Planned(i) :
                             snaps[i][2][k] = (CHOOSE p \in writes : p[1] = k /\ p[3] = snaps[i][1])[4]
     /\ Does("C02") => n = res.n
     /\ Does("C03") =>
          \* reads: the value consumed identifies the cycle. If the documented cycles do not explain the result
          \* but another assignment of cycles does, the read happened in the wrong cycle.
          /\ \/ res.r = post
             \/ ~\E cyc \in [RdAddrs -> 1..n] : Result(cyc).r = post
          \* writes: memory changes exactly in the documented cycles
          /\ \A i \in 1..Len(snaps) :
               /\ Changed(i) \subseteq Planned(i)
               /\ \A k \in Planned(i) :
                    k \in Changed(i) \/ (CHOOSE p \in writes : p[1] = k /\ p[3] = snaps[i][1])[4] = sched[SIdx(snaps[i][1])][2][k]

Check3(e) == LET d == Daa(e[2], e[3]) IN d.res = e[4] /\ d.f = e[5]

Next == /\ l <= Len(Scens[sc].ev) /\ l' = l + 1 /\ UNCHANGED sc
        /\ LET e == Ev IN
           CASE e[1] = 0 -> TRUE        \* recorded but outside the precondition: not judged
             [] e[1] = 1 -> Check1(e)
             [] e[1] = 2 -> Check2(e)
             [] e[1] = 3 -> Check3(e)

Spec == Init /\ [][Next]_vars
Done == (l = Len(Scens[sc].ev) + 1) => PrintT(<<"ACCEPT", Scens[sc].id>>)
Prog == PrintT(<<"AT", Scens[sc].id, l>>)
=============================================================================
