------------------------------ MODULE SM83_MC ------------------------------
(* Leg A for C01/C02/C03: the instruction semantics in SM83.tla are checked *)
(* against independent descriptions (frame conditions, documented cycle     *)
(* table, well-formedness of the access plan, algebraic identities of the   *)
(* ALU) over every defined opcode and a boundary lattice of register,       *)
(* flag, operand and memory values. One step = one instruction.             *)
EXTENDS SM83, TLC, IOUtils

Big == "LATTICE" \in DOMAIN IOEnv /\ IOEnv.LATTICE = "big"

L8a == IF Big THEN {0, 1, 15, 16, 127, 128, 254, 255} ELSE {0, 15, 128, 255}
L8x == IF Big THEN {0, 1, 127, 255} ELSE {0, 255}
L16 == IF Big THEN {0, 255, 4095, 32768, 65535} ELSE {255, 65535}
LB1 == IF Big THEN {0, 1, 127, 128, 255} ELSE {1, 128, 255}
LMv == IF Big THEN {0, 15, 128, 255} ELSE {0, 255}

Defined == (0..255) \ Undefined

VARIABLES pre, op, b1, b2, mv, out
mvars == <<pre, op, b1, b2, mv, out>>

\* test memory: a different byte at every address, parameterised by mv
M0(addr) == (mv + addr * 7) % 256

Init == /\ op \in Defined
        /\ b1 \in (IF op = 203 THEN 0..255 ELSE LB1)
        /\ b2 \in {b1, 255 - b1}
        /\ mv \in LMv
        /\ \E a \in L8a, x \in L8x, s \in L16, fn \in 0..15 :
              pre = [a |-> a, f |-> fn * 16, b |-> x, c |-> (x + 1) % 256, d |-> 255 - x, e |-> (x + 2) % 256,
                     h |-> (x + 192) % 256, l |-> (255 - x + 8) % 256, sp |-> s, pc |-> 49152 + ((x * 31) % 4096)]
        /\ out = [r |-> pre, n |-> 0, acc |-> {}]

Instr == /\ out.n = 0
         /\ out' = Exec(pre, op, b1, b2, M0)
         /\ UNCHANGED <<pre, op, b1, b2, mv>>

Spec == Init /\ [][Instr]_mvars

Done == out.n > 0
cb == IF op = 203 THEN b1 ELSE 0

(* C01: the low nibble of F is zero in every reached state, including after POP AF *)
FLowZero == out.r.f % 16 = 0

(* C01: "and changes nothing else" - registers outside Touches keep their value *)
FrameOK == Done =>
   /\ \A nm \in AllRegNames \ Touches(op, cb) : RegOf(out.r, nm) = RegOf(pre, nm)
   /\ ("m" \notin Touches(op, cb)) => \A a \in out.acc : a[2] = 0

(* C01: PC advances by the instruction length unless a control transfer is taken *)
IsTransfer == LET x == op \div 64 z == op % 8 y == (op \div 8) % 8 IN
              \/ (x = 0 /\ z = 0 /\ y >= 3)
              \/ (x = 3 /\ z \in {0, 2, 4} /\ y < 4)
              \/ (x = 3 /\ z = 1 /\ y \in {1, 3, 5})
              \/ op \in {195, 205} \/ (x = 3 /\ z = 7)
PCAdvance == Done => (IsTransfer /\ Taken(op, pre.f)) \/ out.r.pc = (pre.pc + ILen(op)) % 65536

(* C02: the cycle count is the documented one, chosen from the flags at that moment *)
CyclesMatchDoc == Done => out.n = CyclesDoc(op, cb, pre.f)

(* C03: the access plan is well formed *)
PlanWellFormed == Done =>
   /\ \A a \in out.acc : a[1] \in 2..out.n /\ a[2] \in {0, 1} /\ a[3] \in 0..65535 /\ a[4] \in 0..255
   /\ \A a, b \in out.acc : a[1] = b[1] => a = b
   /\ \A a \in out.acc : a[2] = 0 => a[4] = M0(a[3])

RegsInRange == /\ \A nm \in AllRegNames \ {"sp"} : RegOf(out.r, nm) \in 0..255
               /\ out.r.sp \in 0..65535 /\ out.r.pc \in 0..65535

(* ---- algebraic identities of the transcription, exhaustive over 8-bit domains ---- *)
Byte == 0..255
ASSUME SbcIsAdcOfComplement ==
   \A a \in Byte, v \in Byte, c \in {0, 1} :
      LET s == Alu(3, a, v, c)  t == Alu(1, a, 255 - v, 1 - c) IN
      s.res = t.res /\ FC(s.f) = 1 - FC(t.f) /\ FZ(s.f) = FZ(t.f) /\ FH(s.f) = 1 - FH(t.f)
ASSUME SubIsSbc0 == \A a \in Byte, v \in Byte : Alu(2, a, v, 0) = Alu(3, a, v, 0) /\ Alu(0, a, v, 1) = Alu(1, a, v, 0)
ASSUME CpIsSubFlags == \A a \in Byte, v \in Byte : Alu(7, a, v, 0).f = Alu(2, a, v, 0).f /\ Alu(7, a, v, 0).res = a
ASSUME LogicOps == \A a \in Byte, v \in Byte :
   /\ Alu(5, Alu(5, a, v, 0).res, v, 0).res = a
   /\ Alu(4, a, v, 0).res + Alu(6, a, v, 0).res = a + v
   /\ Alu(5, a, v, 0).res = Alu(6, a, v, 0).res - Alu(4, a, v, 0).res
ASSUME RotInverse == \A v \in Byte, c \in {0, 1} :
   /\ Rot(1, Rot(0, v, c).res, c).res = v
   /\ Rot(6, Rot(6, v, c).res, c).res = v
   /\ Rot(3, Rot(2, v, c).res, FC(Rot(2, v, c).f)).res = v
   /\ Rot(4, v, c).res = (2 * v) % 256 /\ Rot(7, v, c).res = v \div 2
ASSUME DaaIsBcdAdd == \A x \in 0..99, y \in 0..99 :
   LET bx == (x \div 10) * 16 + (x % 10)  by == (y \div 10) * 16 + (y % 10)
       s == Alu(0, bx, by, 0)
       d == Daa(s.res, s.f)
       t == (x + y) % 100
   IN d.res = (t \div 10) * 16 + (t % 10) /\ FC(d.f) = (IF x + y > 99 THEN 1 ELSE 0)
ASSUME DaaIsBcdSub == \A x \in 0..99, y \in 0..99 :
   LET bx == (x \div 10) * 16 + (x % 10)  by == (y \div 10) * 16 + (y % 10)
       s == Alu(2, bx, by, 0)
       d == Daa(s.res, s.f)
       t == (x + 100 - y) % 100
   IN d.res = (t \div 10) * 16 + (t % 10) /\ FC(d.f) = (IF x < y THEN 1 ELSE 0)
ASSUME AddSPeFlagsAreLowByteAdd == \A s \in {0, 1, 15, 16, 255, 256, 4095, 65535, 65280}, e \in Byte :
   LET t == AddSPe(s, e)  u == Alu(0, s % 256, e, 0) IN
   FH(t.f) = FH(u.f) /\ FC(t.f) = FC(u.f) /\ FZ(t.f) = 0 /\ FN(t.f) = 0
   /\ t.res = (s + (IF e >= 128 THEN e - 256 ELSE e) + 65536) % 65536
=============================================================================
