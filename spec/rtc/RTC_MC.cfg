SPECIFICATION Spec
INVARIANTS ReadMasks FieldsInWidth
PROPERTIES SecondAdvances AlmostDoesNotAdvanceTwice CarrySticky ReadsOnlyChangeOnLatch01 LatchCaptures SecondsWriteRestartsSub
VIEW mview
CHECK_DEADLOCK FALSE
