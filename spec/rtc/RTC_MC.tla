------------------------------- MODULE RTC_MC -------------------------------
(* Leg A for C10: boundary-structured counter states, all sequences up to a  *)
(* depth of {one second passes, latch 0, latch 1, register write, halt       *)
(* toggle}; the clauses of the property as invariants / action properties.   *)
EXTENDS RTC, TLC, IOUtils

VARIABLES r, depth, op
mvars == <<r, depth, op>>
MaxDepth == IF "DEPTH" \in DOMAIN IOEnv THEN atoi(IOEnv.DEPTH) ELSE 4

SM == {0, 1, 58, 59, 60, 62, 63}
HH == {0, 22, 23, 24, 30, 31}
DD == {0, 1, 255, 256, 510, 511}

Init == /\ \E s \in SM, m \in SM, h \in HH, d \in DD, c \in BOOLEAN, hl \in BOOLEAN :
             r = [Rtc0 EXCEPT !.s = s, !.m = m, !.h = h, !.d = d, !.carry = c, !.halt = hl]
        /\ depth = 0 /\ op = "init"

Next == /\ depth < MaxDepth /\ depth' = depth + 1
        /\ \/ r' = TickN(r, Second) /\ op' = "second"
           \/ r' = TickN(r, Second - 1) /\ op' = "almost"
           \/ r' = LatchWrite(r, 0) /\ op' = "l0"
           \/ r' = LatchWrite(r, 1) /\ op' = "l1"
           \/ \E v \in {0, 59, 63} : r' = RegWrite(r, 8, v) /\ op' = "ws"
           \/ \E v \in {0, 64, 128, 193} : r' = RegWrite(r, 12, v) /\ op' = "wc"
Spec == Init /\ [][Next]_mvars

Reads(x) == [reg \in 8..12 |-> RegRead(x, reg)]

\* one second per 1,048,576 cycles with proper carries (for in-range clocks), nothing while halted
SecondAdvances == [][(op' = "second") =>
                      IF r.halt THEN r' = r
                      ELSE (InRange(r) => /\ InRange(r')
                                         /\ TotalSeconds(r') = (TotalSeconds(r) + 1) % (512 * 86400)
                                         /\ r'.carry = (r.carry \/ TotalSeconds(r) = 512 * 86400 - 1))]_mvars
AlmostDoesNotAdvanceTwice == [][(op' = "almost" /\ ~r.halt /\ InRange(r)) =>
                                  TotalSeconds(r') \in {TotalSeconds(r), (TotalSeconds(r) + 1) % (512 * 86400)}]_mvars
CarrySticky == [][(r.carry /\ op' \notin {"wc"}) => r'.carry]_mvars
\* reads change only by a latch write of 1 that follows a write of 0
ReadsOnlyChangeOnLatch01 == [][(Reads(r') # Reads(r)) => (op' = "l1" /\ r.armed)]_mvars
LatchCaptures == [][(op' = "l1" /\ r.armed) => (r'.ls = r.s /\ r'.lm = r.m /\ r'.lh = r.h /\ r'.ld = r.d /\ r'.lcarry = r.carry /\ r'.lhalt = r.halt)]_mvars
ReadMasks == /\ RegRead(r, 8) \in 0..63 /\ RegRead(r, 9) \in 0..63 /\ RegRead(r, 10) \in 0..31 /\ RegRead(r, 11) \in 0..255
             /\ RegRead(r, 12) \in {0, 1, 64, 65, 128, 129, 192, 193}
SecondsWriteRestartsSub == [][(op' = "ws") => r'.sub = 0]_mvars
FieldsInWidth == r.s \in 0..63 /\ r.m \in 0..63 /\ r.h \in 0..31 /\ r.d \in 0..511 /\ r.sub \in 0..(Second - 1)
mview == <<r, depth>>
=============================================================================
