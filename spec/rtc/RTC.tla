--------------------------------- MODULE RTC ---------------------------------
(* The MBC3 real-time clock (property C10).                                  *)
(* State record:                                                             *)
(*   s, m, h, d, carry, halt   live counters (6, 6, 5, 9 bits) and flags     *)
(*   ls, lm, lh, ld, lcarry, lhalt   the latched copy that reads return      *)
(*   sub    machine cycles since the last second (0 .. 2^20-1)               *)
(*   armed  a latch write of 0 has been seen (the next write of 1 latches)   *)
EXTENDS Integers

Second == 1048576

Rtc0 == [s |-> 0, m |-> 0, h |-> 0, d |-> 0, carry |-> FALSE, halt |-> FALSE,
         ls |-> 0, lm |-> 0, lh |-> 0, ld |-> 0, lcarry |-> FALSE, lhalt |-> FALSE, sub |-> 0, armed |-> FALSE]

\* one second: ripple carry at 60/60/24, day counter 9 bits, wrap sets the sticky carry flag.
\* A field written with an out-of-range value counts on until it overflows its width, without carrying out.
Increment(r) ==
   LET s1 == r.s + 1
       cs == s1 = 60
       m1 == IF cs THEN r.m + 1 ELSE r.m
       cm == cs /\ m1 = 60
       h1 == IF cm THEN r.h + 1 ELSE r.h
       ch == cm /\ h1 = 24
       d1 == IF ch THEN r.d + 1 ELSE r.d
       cd == ch /\ d1 = 512
   IN [r EXCEPT !.s = (IF cs THEN 0 ELSE s1) % 64,
                !.m = (IF cm THEN 0 ELSE m1) % 64,
                !.h = (IF ch THEN 0 ELSE h1) % 32,
                !.d = (IF cd THEN 0 ELSE d1) % 512,
                !.carry = r.carry \/ cd]

RECURSIVE IncN(_, _)
IncN(r, k) == IF k = 0 THEN r ELSE IncN(Increment(r), k - 1)

\* n machine cycles of emulated time
TickN(r, n) ==
   IF r.halt THEN r
   ELSE LET t == r.sub + n IN [IncN(r, t \div Second) EXCEPT !.sub = t % Second]

Latch(r) == [r EXCEPT !.ls = r.s, !.lm = r.m, !.lh = r.h, !.ld = r.d, !.lcarry = r.carry, !.lhalt = r.halt]

\* a write to 6000-7FFF: 0 arms, 1 latches if armed
LatchWrite(r, v) ==
   IF v % 2 = 0 THEN [r EXCEPT !.armed = TRUE]
   ELSE [(IF r.armed THEN Latch(r) ELSE r) EXCEPT !.armed = FALSE]

B2N(b) == IF b THEN 1 ELSE 0

\* register reads come from the latched copy, masked to their widths
RegRead(r, reg) ==
   CASE reg = 8  -> r.ls % 64
     [] reg = 9  -> r.lm % 64
     [] reg = 10 -> r.lh % 32
     [] reg = 11 -> r.ld % 256
     [] reg = 12 -> ((r.ld \div 256) % 2) + 64 * B2N(r.lhalt) + 128 * B2N(r.lcarry)

\* register writes set the live counters; a seconds write restarts the sub-second count
RegWrite(r, reg, v) ==
   CASE reg = 8  -> [r EXCEPT !.s = v % 64, !.sub = 0]
     [] reg = 9  -> [r EXCEPT !.m = v % 64]
     [] reg = 10 -> [r EXCEPT !.h = v % 32]
     [] reg = 11 -> [r EXCEPT !.d = (r.d \div 256) * 256 + v]
     [] reg = 12 -> [r EXCEPT !.d = (v % 2) * 256 + (r.d % 256), !.halt = (v \div 64) % 2 = 1, !.carry = (v \div 128) % 2 = 1]

InRange(r) == r.s < 60 /\ r.m < 60 /\ r.h < 24
TotalSeconds(r) == ((r.d * 24 + r.h) * 60 + r.m) * 60 + r.s
=============================================================================
