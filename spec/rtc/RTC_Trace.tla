------------------------------ MODULE RTC_Trace ------------------------------
(* Leg B for C10: an MBC3+TIMER cartridge driven through the real Mapper.    *)
(* events: ["w", addr, v]  bus write (0000-1FFF enable, 4000-5FFF select,    *)
(*                         6000-7FFF latch, A000-BFFF clock register write)  *)
(*         ["r", addr, v]  bus read of A000-BFFF                             *)
(*         ["tick", n]     n machine cycles of Mapper.EndMachineCycle        *)
(*         ["sub", n]      hook: the sub-second cycle count is set to n      *)
(*         ["set", s, m, h, d, carry, halt, sub]  hook: live counters set    *)
(*         ["get", s, m, h, d, carry, halt]       hook: live counters read   *)
EXTENDS RTC, TLC, Json, IOUtils, Sequences

Scens == ndJsonDeserialize(IOEnv.TRACE)

VARIABLES sc, l, r, ramg, sel
vars == <<sc, l, r, ramg, sel>>
Ev == Scens[sc].ev[l]

Init == /\ sc \in 1..Len(Scens) /\ l = 1
        /\ r = Rtc0 /\ ramg = FALSE /\ sel = 0

Write(addr, v) ==
   CASE addr < 8192  -> ramg' = (v % 16 = 10) /\ UNCHANGED <<r, sel>>
     [] addr < 16384 -> UNCHANGED <<r, ramg, sel>>
     [] addr < 24576 -> sel' = v % 16 /\ UNCHANGED <<r, ramg>>
     [] addr < 32768 -> /\ IF v \in {0, 1} THEN r' = LatchWrite(r, v)
                           ELSE r' \in {LatchWrite(r, v), r, [r EXCEPT !.armed = FALSE]}     \* only 0 and 1 are specified
                        /\ UNCHANGED <<ramg, sel>>
     [] OTHER        -> /\ r' = IF ramg /\ sel \in 8..12 THEN RegWrite(r, sel, v) ELSE r
                        /\ UNCHANGED <<ramg, sel>>

Read(addr, v) ==
   /\ (ramg /\ sel \in 8..12) => v = RegRead(r, sel)
   /\ (~ramg) => v = 255
   /\ UNCHANGED <<r, ramg, sel>>

Next == /\ l <= Len(Scens[sc].ev) /\ l' = l + 1 /\ UNCHANGED sc
        /\ LET e == Ev IN
           CASE e[1] = "w"    -> Write(e[2], e[3])
             [] e[1] = "r"    -> Read(e[2], e[3])
             [] e[1] = "tick" -> r' = TickN(r, e[2]) /\ UNCHANGED <<ramg, sel>>
             [] e[1] = "sub"  -> r' = [r EXCEPT !.sub = e[2]] /\ UNCHANGED <<ramg, sel>>
             [] e[1] = "set"  -> /\ r' = [r EXCEPT !.s = e[2], !.m = e[3], !.h = e[4], !.d = e[5], !.carry = e[6] = 1, !.halt = e[7] = 1, !.sub = e[8]]
                                 /\ UNCHANGED <<ramg, sel>>
             [] e[1] = "get"  -> /\ r.s = e[2] /\ r.m = e[3] /\ r.h = e[4] /\ r.d = e[5] /\ r.carry = (e[6] = 1) /\ r.halt = (e[7] = 1)
                                 /\ UNCHANGED <<r, ramg, sel>>
             [] OTHER         -> FALSE

Spec == Init /\ [][Next]_vars
Done == (l = Len(Scens[sc].ev) + 1) => PrintT(<<"ACCEPT", Scens[sc].id>>)
Prog == PrintT(<<"AT", Scens[sc].id, l, r.s, r.m, r.h, r.d, r.carry, r.halt, r.sub, r.armed, r.ls, r.lm, r.lh, r.ld, ramg, sel>>)
=============================================================================
