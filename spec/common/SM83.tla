-------------------------------- MODULE SM83 --------------------------------
(* The SM83 instruction set as pure operators (properties C01, C02, C03).    *)
(*                                                                           *)
(* Registers are a record [a,f,b,c,d,e,h,l,sp,pc]; memory is an oracle M(_)  *)
(* supplied by the caller (from the bus log of a recorded execution, or a    *)
(* test function in the model-checking configuration). The decode follows    *)
(* the octal fields x/y/z/p/q of the opcode, not a 512-entry table.          *)
(*                                                                           *)
(* Exec(r, op, b1, b2, M) = [r |-> registers afterwards,                     *)
(*                           n |-> machine cycles taken,                     *)
(*                           acc |-> set of data accesses <<cycle, rw, addr, val>>] *)
(* (rw 0 = read, 1 = write; instruction-stream fetches are not data accesses). *)
(* b1, b2 are the two bytes that follow the opcode; for op = 0xCB, b1 is the *)
(* prefixed opcode.                                                          *)
EXTENDS Integers, Sequences, Bitwise, FiniteSets

B2N(b) == IF b THEN 1 ELSE 0
Bit(v, i) == (v \div (2^i)) % 2
S8(v) == IF v >= 128 THEN v - 256 ELSE v
W16(v) == v % 65536
W8(v) == v % 256
Hi(v) == v \div 256
Lo(v) == v % 256

FZ(f) == Bit(f, 7)
FN(f) == Bit(f, 6)
FH(f) == Bit(f, 5)
FC(f) == Bit(f, 4)
MkF(z, n, h, c) == 128 * z + 64 * n + 32 * h + 16 * c

BC(r) == r.b * 256 + r.c
DE(r) == r.d * 256 + r.e
HL(r) == r.h * 256 + r.l
AF(r) == r.a * 256 + r.f

Undefined == {211, 219, 221, 227, 228, 235, 236, 237, 244, 252, 253}

(* ---- 8-bit ALU: op index as in the opcode's y field ---- *)
Alu(y, a, v, cf) ==
  CASE y = 0 -> LET s == a + v IN
                [res |-> W8(s), f |-> MkF(B2N(W8(s) = 0), 0, B2N((a % 16) + (v % 16) > 15), B2N(s > 255))]
    [] y = 1 -> LET s == a + v + cf IN
                [res |-> W8(s), f |-> MkF(B2N(W8(s) = 0), 0, B2N((a % 16) + (v % 16) + cf > 15), B2N(s > 255))]
    [] y = 2 -> LET s == a - v IN
                [res |-> W8(s + 256), f |-> MkF(B2N(W8(s + 256) = 0), 1, B2N((a % 16) < (v % 16)), B2N(a < v))]
    [] y = 3 -> LET s == a - v - cf IN
                [res |-> W8(s + 512), f |-> MkF(B2N(W8(s + 512) = 0), 1, B2N((a % 16) < (v % 16) + cf), B2N(a < v + cf))]
    [] y = 4 -> LET s == a & v IN [res |-> s, f |-> MkF(B2N(s = 0), 0, 1, 0)]
    [] y = 5 -> LET s == a ^^ v IN [res |-> s, f |-> MkF(B2N(s = 0), 0, 0, 0)]
    [] y = 6 -> LET s == a | v IN [res |-> s, f |-> MkF(B2N(s = 0), 0, 0, 0)]
    [] y = 7 -> LET s == a - v IN
                [res |-> a, f |-> MkF(B2N(W8(s + 256) = 0), 1, B2N((a % 16) < (v % 16)), B2N(a < v))]

(* ---- CB rotates/shifts: index = y ---- *)
Rot(y, v, cf) ==
  LET mk(res, c) == [res |-> res, f |-> MkF(B2N(res = 0), 0, 0, c)] IN
  CASE y = 0 -> mk(W8(v * 2) + Bit(v, 7), Bit(v, 7))                \* RLC
    [] y = 1 -> mk((v \div 2) + 128 * Bit(v, 0), Bit(v, 0))         \* RRC
    [] y = 2 -> mk(W8(v * 2) + cf, Bit(v, 7))                       \* RL
    [] y = 3 -> mk((v \div 2) + 128 * cf, Bit(v, 0))                \* RR
    [] y = 4 -> mk(W8(v * 2), Bit(v, 7))                            \* SLA
    [] y = 5 -> mk((v \div 2) + 128 * Bit(v, 7), Bit(v, 0))         \* SRA
    [] y = 6 -> mk((v % 16) * 16 + (v \div 16), 0)                  \* SWAP
    [] y = 7 -> mk(v \div 2, Bit(v, 0))                             \* SRL

Daa(a, f) ==
  IF FN(f) = 0
  THEN LET lowAdj == (FH(f) = 1) \/ (a % 16 > 9)
           highAdj == (FC(f) = 1) \/ (a > 153)
           res == W8(a + (IF lowAdj THEN 6 ELSE 0) + (IF highAdj THEN 96 ELSE 0))
       IN [res |-> res, f |-> MkF(B2N(res = 0), 0, 0, B2N(highAdj))]
  ELSE LET res == W8(a + 512 - (IF FH(f) = 1 THEN 6 ELSE 0) - (IF FC(f) = 1 THEN 96 ELSE 0))
       IN [res |-> res, f |-> MkF(B2N(res = 0), 1, 0, FC(f))]

Cond(y, f) == CASE y = 0 -> FZ(f) = 0 [] y = 1 -> FZ(f) = 1 [] y = 2 -> FC(f) = 0 [] y = 3 -> FC(f) = 1

(* ---- register file access by index: 0 B 1 C 2 D 3 E 4 H 5 L 7 A (6 = (HL)) ---- *)
R8(r, i) == CASE i = 0 -> r.b [] i = 1 -> r.c [] i = 2 -> r.d [] i = 3 -> r.e
              [] i = 4 -> r.h [] i = 5 -> r.l [] i = 7 -> r.a
SetR8(r, i, v) == CASE i = 0 -> [r EXCEPT !.b = v] [] i = 1 -> [r EXCEPT !.c = v]
                    [] i = 2 -> [r EXCEPT !.d = v] [] i = 3 -> [r EXCEPT !.e = v]
                    [] i = 4 -> [r EXCEPT !.h = v] [] i = 5 -> [r EXCEPT !.l = v]
                    [] i = 7 -> [r EXCEPT !.a = v]
RP(r, p) == CASE p = 0 -> BC(r) [] p = 1 -> DE(r) [] p = 2 -> HL(r) [] p = 3 -> r.sp
SetRP(r, p, v) == CASE p = 0 -> [r EXCEPT !.b = Hi(v), !.c = Lo(v)]
                    [] p = 1 -> [r EXCEPT !.d = Hi(v), !.e = Lo(v)]
                    [] p = 2 -> [r EXCEPT !.h = Hi(v), !.l = Lo(v)]
                    [] p = 3 -> [r EXCEPT !.sp = v]
RP2(r, p) == IF p = 3 THEN AF(r) ELSE RP(r, p)
SetRP2(r, p, v) == IF p = 3 THEN [r EXCEPT !.a = Hi(v), !.f = Lo(v) - (Lo(v) % 16)] ELSE SetRP(r, p, v)

AddSPe(sp, e) == [res |-> W16(sp + S8(e) + 65536),
                  f |-> MkF(0, 0, B2N((sp % 16) + (e % 16) > 15), B2N((sp % 256) + e > 255))]

Res(r, n, acc) == [r |-> r, n |-> n, acc |-> acc]
PC(r, k) == [r EXCEPT !.pc = W16(r.pc + k)]

(* ---- CB-prefixed ---- *)
ExecCB(r0, op, M(_)) ==
  LET x == op \div 64  y == (op \div 8) % 8  z == op % 8
      r == PC(r0, 2)
      cf == FC(r.f)
      v == IF z = 6 THEN M(HL(r)) ELSE R8(r, z)
      put(rr, val) == IF z = 6 THEN rr ELSE SetR8(rr, z, val)
      rdacc == IF z = 6 THEN {<<3, 0, HL(r), v>>} ELSE {}
  IN CASE x = 0 -> LET t == Rot(y, v, cf) IN
                   Res(put([r EXCEPT !.f = t.f], t.res), IF z = 6 THEN 4 ELSE 2,
                       rdacc \cup (IF z = 6 THEN {<<4, 1, HL(r), t.res>>} ELSE {}))
       [] x = 1 -> Res([r EXCEPT !.f = MkF(1 - Bit(v, y), 0, 1, cf)], IF z = 6 THEN 3 ELSE 2, rdacc)
       [] x = 2 -> LET t == v - Bit(v, y) * (2^y) IN
                   Res(put(r, t), IF z = 6 THEN 4 ELSE 2, rdacc \cup (IF z = 6 THEN {<<4, 1, HL(r), t>>} ELSE {}))
       [] x = 3 -> LET t == v + (1 - Bit(v, y)) * (2^y) IN
                   Res(put(r, t), IF z = 6 THEN 4 ELSE 2, rdacc \cup (IF z = 6 THEN {<<4, 1, HL(r), t>>} ELSE {}))

(* ---- base opcodes; b1,b2 = the two bytes after the opcode ---- *)
Exec(r, op, b1, b2, M(_)) ==
  LET x == op \div 64  y == (op \div 8) % 8  z == op % 8  p == y \div 2  q == y % 2
      nn == b2 * 256 + b1
      cf == FC(r.f)
      hl == HL(r)
  IN
  IF op = 203 THEN ExecCB(r, b1, M)
  ELSE CASE x = 0 ->
       (CASE z = 0 ->
             (CASE y = 0 -> Res(PC(r, 1), 1, {})
                [] y = 1 -> Res(PC(r, 3), 5, {<<4, 1, nn, Lo(r.sp)>>, <<5, 1, W16(nn + 1), Hi(r.sp)>>})
                [] y = 2 -> Res(PC(r, 1), 1, {})                                     \* STOP (free in the trace spec)
                [] y = 3 -> Res(PC(r, 2 + S8(b1) + 65536), 3, {})
                [] OTHER -> IF Cond(y - 4, r.f) THEN Res(PC(r, 2 + S8(b1) + 65536), 3, {}) ELSE Res(PC(r, 2), 2, {}))
          [] z = 1 -> IF q = 0 THEN Res(PC(SetRP(r, p, nn), 3), 3, {})
                      ELSE LET v == RP(r, p) s == hl + v IN
                           Res(PC(SetRP([r EXCEPT !.f = MkF(FZ(r.f), 0, B2N((hl % 4096) + (v % 4096) > 4095), B2N(s > 65535))], 2, W16(s)), 1), 2, {})
          [] z = 2 ->
             LET addr == CASE p = 0 -> BC(r) [] p = 1 -> DE(r) [] OTHER -> hl
                 r1 == CASE p = 2 -> SetRP(r, 2, W16(hl + 1)) [] p = 3 -> SetRP(r, 2, W16(hl + 65535)) [] OTHER -> r
             IN IF q = 0 THEN Res(PC(r1, 1), 2, {<<2, 1, addr, r.a>>})
                ELSE Res(PC([r1 EXCEPT !.a = M(addr)], 1), 2, {<<2, 0, addr, M(addr)>>})
          [] z = 3 -> Res(PC(SetRP(r, p, W16(RP(r, p) + (IF q = 0 THEN 1 ELSE 65535))), 1), 2, {})
          [] z = 4 -> LET v == IF y = 6 THEN M(hl) ELSE R8(r, y)
                          t == W8(v + 1)
                          rf == [r EXCEPT !.f = MkF(B2N(t = 0), 0, B2N(v % 16 = 15), cf)]
                      IN IF y = 6 THEN Res(PC(rf, 1), 3, {<<2, 0, hl, v>>, <<3, 1, hl, t>>})
                         ELSE Res(PC(SetR8(rf, y, t), 1), 1, {})
          [] z = 5 -> LET v == IF y = 6 THEN M(hl) ELSE R8(r, y)
                          t == W8(v + 255)
                          rf == [r EXCEPT !.f = MkF(B2N(t = 0), 1, B2N(v % 16 = 0), cf)]
                      IN IF y = 6 THEN Res(PC(rf, 1), 3, {<<2, 0, hl, v>>, <<3, 1, hl, t>>})
                         ELSE Res(PC(SetR8(rf, y, t), 1), 1, {})
          [] z = 6 -> IF y = 6 THEN Res(PC(r, 2), 3, {<<3, 1, hl, b1>>})
                      ELSE Res(PC(SetR8(r, y, b1), 2), 2, {})
          [] z = 7 ->
             (CASE y < 4 -> LET t == Rot(y, r.a, cf) IN
                            Res(PC([r EXCEPT !.a = t.res, !.f = MkF(0, 0, 0, FC(t.f))], 1), 1, {})
                [] y = 4 -> LET t == Daa(r.a, r.f) IN Res(PC([r EXCEPT !.a = t.res, !.f = t.f], 1), 1, {})
                [] y = 5 -> Res(PC([r EXCEPT !.a = 255 - r.a, !.f = MkF(FZ(r.f), 1, 1, cf)], 1), 1, {})
                [] y = 6 -> Res(PC([r EXCEPT !.f = MkF(FZ(r.f), 0, 0, 1)], 1), 1, {})
                [] y = 7 -> Res(PC([r EXCEPT !.f = MkF(FZ(r.f), 0, 0, 1 - cf)], 1), 1, {})))
    [] x = 1 ->
       IF op = 118 THEN Res(PC(r, 1), 1, {})                                        \* HALT (control in IntCtl)
       ELSE IF z = 6 THEN Res(PC(SetR8(r, y, M(hl)), 1), 2, {<<2, 0, hl, M(hl)>>})
       ELSE IF y = 6 THEN Res(PC(r, 1), 2, {<<2, 1, hl, R8(r, z)>>})
       ELSE Res(PC(SetR8(r, y, R8(r, z)), 1), 1, {})
    [] x = 2 ->
       LET v == IF z = 6 THEN M(hl) ELSE R8(r, z)
           t == Alu(y, r.a, v, cf)
       IN Res(PC([r EXCEPT !.a = t.res, !.f = t.f], 1), IF z = 6 THEN 2 ELSE 1,
              IF z = 6 THEN {<<2, 0, hl, v>>} ELSE {})
    [] x = 3 ->
       (CASE z = 0 ->
             (CASE y < 4 -> IF Cond(y, r.f)
                            THEN LET lo == M(r.sp) hi == M(W16(r.sp + 1)) IN
                                 Res([r EXCEPT !.pc = hi * 256 + lo, !.sp = W16(r.sp + 2)], 5,
                                     {<<3, 0, r.sp, lo>>, <<4, 0, W16(r.sp + 1), hi>>})
                            ELSE Res(PC(r, 1), 2, {})
                [] y = 4 -> Res(PC(r, 2), 3, {<<3, 1, 65280 + b1, r.a>>})
                [] y = 5 -> LET t == AddSPe(r.sp, b1) IN Res(PC([r EXCEPT !.sp = t.res, !.f = t.f], 2), 4, {})
                [] y = 6 -> Res(PC([r EXCEPT !.a = M(65280 + b1)], 2), 3, {<<3, 0, 65280 + b1, M(65280 + b1)>>})
                [] y = 7 -> LET t == AddSPe(r.sp, b1) IN Res(PC(SetRP([r EXCEPT !.f = t.f], 2, t.res), 2), 3, {}))
          [] z = 1 ->
             IF q = 0 THEN LET lo == M(r.sp) hi == M(W16(r.sp + 1)) IN
                           Res(PC(SetRP2([r EXCEPT !.sp = W16(r.sp + 2)], p, hi * 256 + lo), 1), 3,
                               {<<2, 0, r.sp, lo>>, <<3, 0, W16(r.sp + 1), hi>>})
             ELSE (CASE p < 2 -> LET lo == M(r.sp) hi == M(W16(r.sp + 1)) IN            \* RET, RETI
                                 Res([r EXCEPT !.pc = hi * 256 + lo, !.sp = W16(r.sp + 2)], 4,
                                     {<<2, 0, r.sp, lo>>, <<3, 0, W16(r.sp + 1), hi>>})
                     [] p = 2 -> Res([r EXCEPT !.pc = hl], 1, {})
                     [] p = 3 -> Res(PC([r EXCEPT !.sp = hl], 1), 2, {}))
          [] z = 2 ->
             (CASE y < 4 -> IF Cond(y, r.f) THEN Res([r EXCEPT !.pc = nn], 4, {}) ELSE Res(PC(r, 3), 3, {})
                [] y = 4 -> Res(PC(r, 1), 2, {<<2, 1, 65280 + r.c, r.a>>})
                [] y = 5 -> Res(PC(r, 3), 4, {<<4, 1, nn, r.a>>})
                [] y = 6 -> Res(PC([r EXCEPT !.a = M(65280 + r.c)], 1), 2, {<<2, 0, 65280 + r.c, M(65280 + r.c)>>})
                [] y = 7 -> Res(PC([r EXCEPT !.a = M(nn)], 3), 4, {<<4, 0, nn, M(nn)>>}))
          [] z = 3 -> IF y = 0 THEN Res([r EXCEPT !.pc = nn], 4, {}) ELSE Res(PC(r, 1), 1, {})   \* JP nn; DI; EI
          [] z = 4 -> IF Cond(y, r.f)
                      THEN LET ret == W16(r.pc + 3) IN
                           Res([r EXCEPT !.pc = nn, !.sp = W16(r.sp + 65534)], 6,
                               {<<5, 1, W16(r.sp + 65535), Hi(ret)>>, <<6, 1, W16(r.sp + 65534), Lo(ret)>>})
                      ELSE Res(PC(r, 3), 3, {})
          [] z = 5 ->
             IF q = 0 THEN LET v == RP2(r, p) IN
                           Res(PC([r EXCEPT !.sp = W16(r.sp + 65534)], 1), 4,
                               {<<3, 1, W16(r.sp + 65535), Hi(v)>>, <<4, 1, W16(r.sp + 65534), Lo(v)>>})
             ELSE LET ret == W16(r.pc + 3) IN                                            \* CALL nn
                  Res([r EXCEPT !.pc = nn, !.sp = W16(r.sp + 65534)], 6,
                      {<<5, 1, W16(r.sp + 65535), Hi(ret)>>, <<6, 1, W16(r.sp + 65534), Lo(ret)>>})
          [] z = 6 -> LET t == Alu(y, r.a, b1, cf) IN Res(PC([r EXCEPT !.a = t.res, !.f = t.f], 2), 2, {})
          [] z = 7 -> LET ret == W16(r.pc + 1) IN
                      Res([r EXCEPT !.pc = y * 8, !.sp = W16(r.sp + 65534)], 4,
                          {<<3, 1, W16(r.sp + 65535), Hi(ret)>>, <<4, 1, W16(r.sp + 65534), Lo(ret)>>}))

ILen(op) ==
  LET x == op \div 64  y == (op \div 8) % 8  z == op % 8  q == y % 2 IN
  IF op = 203 THEN 2
  ELSE CASE x = 0 -> (CASE z = 0 -> (IF y = 1 THEN 3 ELSE IF y >= 3 THEN 2 ELSE 1)
                        [] z = 1 -> (IF q = 0 THEN 3 ELSE 1)
                        [] z = 6 -> 2
                        [] OTHER -> 1)
         [] x = 3 -> (CASE z = 0 -> (IF y >= 4 THEN 2 ELSE 1)
                        [] z = 2 -> (IF y < 4 \/ y = 5 \/ y = 7 THEN 3 ELSE 1)
                        [] z = 3 -> (IF y = 0 THEN 3 ELSE 1)
                        [] z = 4 -> 3
                        [] z = 5 -> (IF q = 1 THEN 3 ELSE 1)
                        [] z = 6 -> 2
                        [] OTHER -> 1)
         [] OTHER -> 1

(* ------------------------------------------------------------------------ *)
(* Independent descriptions used to cross-check Exec (leg A) and to state   *)
(* C02 declaratively.                                                       *)
(* ------------------------------------------------------------------------ *)

\* Is the conditional control transfer taken (TRUE for unconditional / other instructions)?
Taken(op, f) ==
  LET x == op \div 64  y == (op \div 8) % 8  z == op % 8 IN
  IF x = 0 /\ z = 0 /\ y >= 4 THEN Cond(y - 4, f)
  ELSE IF x = 3 /\ z \in {0, 2, 4} /\ y < 4 THEN Cond(y, f)
  ELSE TRUE

\* The documented machine-cycle table (C02), by instruction class.
CyclesDoc(op, cbop, f) ==
  LET x == op \div 64  y == (op \div 8) % 8  z == op % 8  q == y % 2  p == y \div 2
      tk == Taken(op, f)
  IN
  IF op = 203
  THEN LET cx == cbop \div 64  cz == cbop % 8 IN
       IF cz # 6 THEN 2 ELSE IF cx = 1 THEN 3 ELSE 4
  ELSE CASE x = 0 ->
         (CASE z = 0 -> (CASE y = 0 -> 1 [] y = 1 -> 5 [] y = 2 -> 1 [] y = 3 -> 3 [] OTHER -> IF tk THEN 3 ELSE 2)
            [] z = 1 -> IF q = 0 THEN 3 ELSE 2
            [] z = 2 -> 2
            [] z = 3 -> 2
            [] z = 4 -> IF y = 6 THEN 3 ELSE 1
            [] z = 5 -> IF y = 6 THEN 3 ELSE 1
            [] z = 6 -> IF y = 6 THEN 3 ELSE 2
            [] z = 7 -> 1)
       [] x = 1 -> IF op = 118 THEN 1 ELSE IF z = 6 \/ y = 6 THEN 2 ELSE 1
       [] x = 2 -> IF z = 6 THEN 2 ELSE 1
       [] x = 3 ->
         (CASE z = 0 -> (CASE y < 4 -> IF tk THEN 5 ELSE 2 [] y = 4 -> 3 [] y = 5 -> 4 [] y = 6 -> 3 [] y = 7 -> 3)
            [] z = 1 -> IF q = 0 THEN 3 ELSE (CASE p = 0 -> 4 [] p = 1 -> 4 [] p = 2 -> 1 [] p = 3 -> 2)
            [] z = 2 -> (CASE y < 4 -> IF tk THEN 4 ELSE 3 [] y = 4 -> 2 [] y = 5 -> 4 [] y = 6 -> 2 [] y = 7 -> 4)
            [] z = 3 -> IF y = 0 THEN 4 ELSE 1
            [] z = 4 -> IF tk THEN 6 ELSE 3
            [] z = 5 -> IF q = 0 THEN 4 ELSE 6
            [] z = 6 -> 2
            [] z = 7 -> 4)

\* Registers an instruction may change (frame condition "and changes nothing else").
\* "f" = flags, "m" = memory. PC is handled separately.
RegName(i) == CASE i = 0 -> "b" [] i = 1 -> "c" [] i = 2 -> "d" [] i = 3 -> "e" [] i = 4 -> "h" [] i = 5 -> "l" [] i = 7 -> "a" [] i = 6 -> "m"
PairNames(p) == CASE p = 0 -> {"b", "c"} [] p = 1 -> {"d", "e"} [] p = 2 -> {"h", "l"} [] p = 3 -> {"sp"}
Touches(op, cbop) ==
  LET x == op \div 64  y == (op \div 8) % 8  z == op % 8  q == y % 2  p == y \div 2 IN
  IF op = 203
  THEN LET cx == cbop \div 64  cz == cbop % 8 IN
       CASE cx = 0 -> {RegName(cz), "f"} [] cx = 1 -> {"f"} [] OTHER -> {RegName(cz)}
  ELSE CASE x = 0 ->
         (CASE z = 0 -> IF y = 1 THEN {"m"} ELSE {}
            [] z = 1 -> IF q = 0 THEN PairNames(p) ELSE {"h", "l", "f"}
            [] z = 2 -> (IF q = 0 THEN {"m"} ELSE {"a"}) \cup (IF p >= 2 THEN {"h", "l"} ELSE {})
            [] z = 3 -> PairNames(p)
            [] z = 4 -> {RegName(y), "f"}
            [] z = 5 -> {RegName(y), "f"}
            [] z = 6 -> {RegName(y)}
            [] z = 7 -> IF y < 6 THEN {"a", "f"} ELSE {"f"})
       [] x = 1 -> IF op = 118 THEN {} ELSE {RegName(y)}
       [] x = 2 -> IF y = 7 THEN {"f"} ELSE {"a", "f"}
       [] x = 3 ->
         (CASE z = 0 -> (CASE y < 4 -> {"sp"} [] y = 4 -> {"m"} [] y = 5 -> {"sp", "f"} [] y = 6 -> {"a"} [] y = 7 -> {"h", "l", "f"})
            [] z = 1 -> IF q = 0 THEN (IF p = 3 THEN {"a", "f", "sp"} ELSE PairNames(p) \cup {"sp"})
                        ELSE (CASE p < 2 -> {"sp"} [] p = 2 -> {} [] p = 3 -> {"sp"})
            [] z = 2 -> (CASE y < 4 -> {} [] y = 4 -> {"m"} [] y = 5 -> {"m"} [] OTHER -> {"a"})
            [] z = 3 -> {}
            [] z = 4 -> {"sp", "m"}
            [] z = 5 -> {"sp", "m"}
            [] z = 6 -> IF y = 7 THEN {"f"} ELSE {"a", "f"}
            [] z = 7 -> {"sp", "m"})

RegOf(r, nm) == CASE nm = "a" -> r.a [] nm = "f" -> r.f [] nm = "b" -> r.b [] nm = "c" -> r.c [] nm = "d" -> r.d
                  [] nm = "e" -> r.e [] nm = "h" -> r.h [] nm = "l" -> r.l [] nm = "sp" -> r.sp
AllRegNames == {"a", "f", "b", "c", "d", "e", "h", "l", "sp"}
=============================================================================
